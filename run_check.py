#!/venv/bin/python
"""Entry point: run_check.py <PROPERTY-ID> [--tier quick|thorough] [--replay FILE]

exit 0  property held on everything explored (KNOWN-FINDING lines may be printed)
exit 1  `VIOLATION property=<id> replay=<path>` printed
exit 2  harness error (never a VIOLATION line)
"""
import os
import sys

if sys.flags.hash_randomization:
    # make str-keyed set/dict iteration order reproducible inside the harness
    os.environ["PYTHONHASHSEED"] = "0"
    os.execv(sys.executable, [sys.executable] + sys.argv)

sys.path.insert(0, os.path.dirname(os.path.abspath(__file__)))
from vlib import env  # noqa: E402,F401  (bootstraps sys.path)
from vlib.runner import main  # noqa: E402

if __name__ == "__main__":
    sys.exit(main())

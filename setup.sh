#!/bin/sh
# Offline setup: make hypothesis (and, for C01's byte fuzzer, atheris) importable by
# /venv/bin/python. Nothing is fetched; wheels come from /opt/veriftools/wheels.
set -e
cd "$(dirname "$0")"
mkdir -p .deps out/replays evidence .scratch
if ! /venv/bin/python -c "import hypothesis" 2>/dev/null && \
   ! PYTHONPATH=.deps /venv/bin/python -c "import hypothesis" 2>/dev/null; then
  /venv/bin/pip install --quiet --no-index --find-links /opt/veriftools/wheels --target .deps hypothesis
fi
if ! PYTHONPATH=.deps /venv/bin/python -c "import atheris" 2>/dev/null; then
  /venv/bin/pip install --quiet --no-index --find-links /opt/veriftools/wheels --target .deps --no-deps atheris \
    || echo "setup: atheris unavailable; C01 falls back to the Hypothesis byte generator only"
fi
/venv/bin/python -c "import sys; sys.path.insert(0,'.deps'); import hypothesis; print('hypothesis', hypothesis.__version__)"

"""C19  Safety analysis is total on every pickle that decompiles."""
import io
import json

from vlib import asm, cells, diff, vocab
from vlib.runner import Failure, ShardResult, hypothesis_search

ID = "C19"
LEVEL = "exploration"
RULE = (
    "product cells over the labelled vocabulary: every (module x attribute name) pair with all "
    "attribute names that individual rules special-case (eval, exec, open, compile, load, "
    "getitem, attrgetter, itemgetter, methodcaller, runstring, _load_from_bytes, system, "
    "_run_code, execWrapper) x resolving opcode (GLOBAL, STACK_GLOBAL in 3 string encodings, "
    "STACK_GLOBAL from memo, INST) x calling opcode (none, REDUCE x3 arg shapes, OBJ, NEWOBJ, "
    "NEWOBJ_EX, INST) x disposal x framing, plus Hypothesis programs from the typed assembler "
    "over the same vocabulary. Oracle, for every program whose decompile succeeds: check_safety "
    "returns; every finding has a Severity and a non-empty message; json.dumps(to_dict()) "
    "succeeds and round-trips; for the harmless sub-family (sink / getpid / eval / len) the "
    "checked loader raises UnsafeFileError whose info equals to_dict(). Non-trivial = attribute "
    "name is special-cased by some rule and the module is not that rule's module; distinct = "
    "distinct byte strings."
)
ASSUMPTIONS = [
    "a program fickling refuses to decompile (parse/interpret/unparse raises) is outside the "
    "quantifier",
    "JSON round-trip equality is modulo tuple -> list (json has no tuples)",
    "the loader sub-check runs only on programs whose globals are harmless, so that even a "
    "broken loader could execute nothing dangerous",
]

HARMLESS = (("verif_sink", "sink"), ("os", "getpid"), ("builtins", "eval"), ("builtins", "len"),
            ("posix", "getpid"))  # fmt: skip

# which module each special attribute name "belongs to" in fickling's tables
_RULE_HOME = {
    "eval": vocab.BUILTIN_MODULES, "exec": vocab.BUILTIN_MODULES, "open": vocab.BUILTIN_MODULES,
    "compile": vocab.BUILTIN_MODULES, "load": ("torch",), "getitem": ("operator",),
    "attrgetter": ("operator",), "itemgetter": ("operator",), "methodcaller": ("operator",),
    "runstring": ("numpy.testing._private.utils",), "_load_from_bytes": ("torch.storage",),
    "system": ("os", "posix", "nt"), "_run_code": ("runpy",), "execWrapper": (),
}  # fmt: skip


def _listify(x):
    if isinstance(x, (list, tuple)):
        return [_listify(v) for v in x]
    if isinstance(x, dict):
        return {k: _listify(v) for k, v in x.items()}
    return x


def judge(data, loader_check=False):
    """(Failure|None, klass)"""
    from fickling.analysis import Severity, check_safety
    from fickling.fickle import Pickled

    d = diff.decompile(data)
    if d.status != "ok":
        return None, "refused"
    case = {"hex": data.hex(), "loader_check": bool(loader_check)}
    try:
        res = check_safety(Pickled.load(data))
        sev = res.severity
    except Exception as e:  # noqa: BLE001
        return (
            Failure(
                case,
                f"{data!r} decompiles but the safety check fails: {type(e).__name__}: {e}",
                {"source": d.src},
            ),
            "analysis-raised",
        )
    if not isinstance(sev, Severity):
        return Failure(case, f"verdict of {data!r} is not a Severity: {sev!r}"), "bad-verdict"
    for r in res.results:
        if not isinstance(getattr(r, "severity", None), Severity):
            return Failure(case, f"a finding for {data!r} has no severity: {r!r}"), "bad-finding"
        if not isinstance(getattr(r, "message", None), str) or not r.message.strip():
            return (
                Failure(case, f"a finding for {data!r} has no message: {vars(r)!r}"),
                "bad-finding",
            )
    try:
        td = res.to_dict()
        txt = json.dumps(td)
        back = json.loads(txt)
    except Exception as e:  # noqa: BLE001
        return (
            Failure(case, f"report for {data!r} is not JSON-serialisable: {type(e).__name__}: {e}"),
            "bad-json",
        )
    if back != _listify(td):
        return Failure(case, f"report for {data!r} does not survive a JSON round trip"), "bad-json"
    if td.get("severity") != sev.name:
        return Failure(case, f"report severity {td.get('severity')!r} != verdict {sev.name}"), "bad"
    klass = "flagged" if sev != Severity.LIKELY_SAFE else "likely-safe"
    if loader_check and sev != Severity.LIKELY_SAFE:
        import fickling
        from fickling.exception import UnsafeFileError

        # every accepted-severity threshold below the verdict: the error must carry the report
        for T in Severity:
            if not (T < sev):
                continue
            try:
                fickling.load(io.BytesIO(data), max_acceptable_severity=T)
            except UnsafeFileError as e:
                if _listify(e.info) != _listify(td):
                    return (
                        Failure(
                            case,
                            f"UnsafeFileError.info for {data!r} (threshold {T.name}) differs from "
                            f"the report: {e.info!r} vs {td!r}",
                        ),
                        klass,
                    )
            except Exception as e:  # noqa: BLE001
                return (
                    Failure(
                        case,
                        f"checked loader on flagged {data!r} raised {type(e).__name__}: {e} instead "
                        "of UnsafeFileError",
                    ),
                    klass,
                )
            else:
                return Failure(case, f"checked loader (threshold {T.name}) returned for {data!r} rated {sev.name}"), klass
        klass = "flagged+loader"
    return None, klass


def replay(case):
    return judge(bytes.fromhex(case["hex"]), case.get("loader_check", False))[0]


def _nt_cell(cell):
    n, m = cell["name"], cell["module"]
    return n in _RULE_HOME and m not in _RULE_HOME[n]


def _cells(tier):
    ents = cells.entries_c19()
    if tier == "quick":
        return cells.all_cells(
            ents, callees=("global",), disposals=("result", "pop"), framings=("bare",)
        )
    return cells.all_cells(
        ents,
        callees=cells.CALLEE,
        disposals=("result", "pop", "below", "build_target", "memo", "in_list", "arg_benign"),
        framings=("bare", "proto4_frame", "benign_around"),
    )


def shards(tier):
    n = 16
    out = [{"kind": "cells", "tier": tier, "part": i, "nparts": n} for i in range(n)]
    out += [{"kind": "harmless", "part": i, "nparts": 4} for i in range(4)]
    per = 300 if tier == "quick" else 5000
    out += [{"kind": "random", "n": per, "idx": i} for i in range(12)]
    return out


def run_shard(spec, seed):
    res = ShardResult()
    if spec["kind"] in ("cells", "harmless"):
        if spec["kind"] == "cells":
            it = _cells(spec["tier"])
            lc = False
        else:
            it = cells.all_cells(list(HARMLESS))
            lc = True
        total = 0
        for i, cell in enumerate(it):
            if i % spec["nparts"] != spec["part"]:
                continue
            try:
                data = cells.build(cell)
            except cells.Skip as e:
                res.excluded[f"not-constructible:{e}"] += 1
                continue
            f, klass = judge(data, loader_check=lc)
            total += 1
            res.note(None, _nt_cell(cell) or lc, klass=klass, sample={"cell": cell, "hex": data.hex()})
            if f is not None:
                f.case["cell"] = cell
                res.failures.append(f)
                break
        res.exhaustive = True
        res.extra["product_cells"] = total
    else:
        globs = tuple(
            (m, n)
            for m, n in (
                ("os", "eval"), ("foo.bar", "exec"), ("collections", "open"), ("numpy", "compile"),
                ("operator", "getitem"), ("torch", "load"), ("builtins", "getattr"),
                ("subprocess", "system"), ("torch.storage", "_load_from_bytes"),
                ("datetime", "attrgetter"), ("pandas", "runstring"), ("code", "_run_code"),
            )
        )  # fmt: skip
        prof = asm.full_profile(globs)

        def body(prog):
            f, klass = judge(prog.data)
            res.note(prog.data, prog.ncalls > 0, klass=klass, sample={"random": prog.data.hex()})
            return f

        hypothesis_search(asm.programs(prof, max_len=24), body, seed, spec["n"], res, batch=500)
    return res

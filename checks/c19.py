"""C19  Safety analysis is total on every pickle that decompiles."""
import io
import json
import os
import sys
import traceback

from vlib import asm, cells, diff, env, vocab
from vlib.runner import Failure, ShardResult, hypothesis_search

ID = "C19"
LEVEL = "exploration"
RULE = (
    "product cells over the labelled vocabulary: every (module x attribute name) pair with all "
    "attribute names that individual rules special-case (eval, exec, open, compile, load, "
    "getitem, attrgetter, itemgetter, methodcaller, runstring, _load_from_bytes, system, "
    "_run_code, execWrapper) x resolving opcode (GLOBAL, STACK_GLOBAL in 3 string encodings, "
    "STACK_GLOBAL from memo, INST) x calling opcode (none, REDUCE x3 arg shapes, OBJ, NEWOBJ, "
    "NEWOBJ_EX, INST) x disposal x framing, plus Hypothesis programs from the typed assembler "
    "over the same vocabulary, the same with any stack value allowed where the VM wants a "
    "callable (programs a static decompiler accepts although the VM would fail), byte-level "
    "mutations of those, and a family with 1-32 findings. Oracle, for every program whose decompile succeeds: check_safety "
    "returns; every finding has a Severity and a non-empty message; json.dumps(to_dict()) "
    "succeeds and round-trips; for the harmless sub-family (sink / getpid / eval / len) the "
    "checked loader raises UnsafeFileError whose info equals to_dict(), before and after the error "
    "has been rendered with str/repr/traceback. Non-trivial = attribute "
    "name is special-cased by some rule and the module is not that rule's module; distinct = "
    "distinct byte strings."
    ' Also: the report at every verbosity, before and after a truth test of the summary and a'
    ' rendering of the error, the report the library writes to a file, mutating opcodes / BUILD on'
    ' literals of every kind, names that are format templates or hold unpaired surrogates / NUL /'
    ' bidi controls.'
)
ASSUMPTIONS = [
    "a program fickling refuses to decompile (parse/interpret/unparse raises) is outside the "
    "quantifier",
    "JSON round-trip equality is modulo tuple -> list (json has no tuples)",
    "the loader sub-check runs only on programs whose globals are harmless, so that even a "
    "broken loader could execute nothing dangerous",
]

HARMLESS = (("verif_sink", "sink"), ("os", "getpid"), ("builtins", "eval"), ("builtins", "len"),
            ("posix", "getpid"))  # fmt: skip

# which module each special attribute name "belongs to" in fickling's tables
_RULE_HOME = {
    "eval": vocab.BUILTIN_MODULES, "exec": vocab.BUILTIN_MODULES, "open": vocab.BUILTIN_MODULES,
    "compile": vocab.BUILTIN_MODULES, "load": ("torch",), "getitem": ("operator",),
    "attrgetter": ("operator",), "itemgetter": ("operator",), "methodcaller": ("operator",),
    "runstring": ("numpy.testing._private.utils",), "_load_from_bytes": ("torch.storage",),
    "system": ("os", "posix", "nt"), "_run_code": ("runpy",), "execWrapper": (),
}  # fmt: skip


def _short(x):
    r = repr(x)
    return r if len(r) < 600 else r[:300] + " ... " + r[-300:]


def _listify(x):
    if isinstance(x, (list, tuple)):
        return [_listify(v) for v in x]
    if isinstance(x, dict):
        return {k: _listify(v) for k, v in x.items()}
    return x


def judge(data, loader_check=False):
    """(Failure|None, klass)"""
    from fickling.analysis import Severity, check_safety
    from fickling.fickle import Pickled

    d = diff.decompile(data)
    if d.status != "ok":
        return None, "refused"
    case = {"hex": data.hex(), "loader_check": bool(loader_check)}
    try:
        res = check_safety(Pickled.load(data))
        sev = res.severity
    except Exception as e:  # noqa: BLE001
        return (
            Failure(
                case,
                f"{data!r} decompiles but the safety check fails: {type(e).__name__}: {e}",
                {"source": d.src},
            ),
            "analysis-raised",
        )
    if not isinstance(sev, Severity):
        return Failure(case, f"verdict of {data!r} is not a Severity: {sev!r}"), "bad-verdict"
    for r in res.results:
        if not isinstance(getattr(r, "severity", None), Severity):
            return Failure(case, f"a finding for {data!r} has no severity: {r!r}"), "bad-finding"
        if not isinstance(getattr(r, "message", None), str) or not r.message.strip():
            return (
                Failure(case, f"a finding for {data!r} has no message: {vars(r)!r}"),
                "bad-finding",
            )
    try:
        td = res.to_dict()
        txt = json.dumps(td)
        back = json.loads(txt)
    except Exception as e:  # noqa: BLE001
        return (
            Failure(case, f"report for {data!r} is not JSON-serialisable: {type(e).__name__}: {e}"),
            "bad-json",
        )
    if back != _listify(td):
        return Failure(case, f"report for {data!r} does not survive a JSON round trip"), "bad-json"
    # the file-level query on the same bytes followed by bytes that are not a pickle
    for junk in (b"", b"(garbage", b"N", b"\x00\xff\x00", b"K"):
        jp = os.path.join(env.SCRATCH, f"c19-junk-{os.getpid()}.bin")
        try:
            os.makedirs(env.SCRATCH, exist_ok=True)
            with open(jp, "wb") as fh:
                fh.write(data + junk)
            from fickling.analysis import is_likely_safe

            ans = is_likely_safe(jp)
        except Exception as e:  # noqa: BLE001
            return (
                Failure(case, f"is_likely_safe() on a file holding {data[:60]!r} followed by {junk!r} fails: {type(e).__name__}: {e}"),
                "bad-verdict",
            )
        finally:
            if os.path.exists(jp):
                os.remove(jp)
        if bool(ans) != (sev == Severity.LIKELY_SAFE):
            return Failure(case, f"is_likely_safe() says {ans} for a file whose first pickle is rated {sev.name} (trailing {junk!r})"), "bad-verdict"
    # asking the summary whether it is clean does not change the report it gives afterwards
    try:
        bool(res), (not res)
        td_after = res.to_dict()
    except Exception as e:  # noqa: BLE001
        return Failure(case, f"truth-testing the summary for {data!r} then to_dict() fails: {e!r}"), "bad-json"
    if _listify(td_after) != _listify(td):
        return (
            Failure(case, f"the report for {data!r} changes once the summary has been truth-tested: "
                          f"{_short(td)} then {_short(td_after)}"),
            "bad-json",
        )
    # the report written to a file by the library itself
    rp = os.path.join(env.SCRATCH, f"c19-{os.getpid()}.json")
    try:
        os.makedirs(env.SCRATCH, exist_ok=True)
        check_safety(Pickled.load(data), json_output_path=rp)
        with open(rp, encoding="utf-8", errors="surrogatepass") as fh:
            fh.read()
    except Exception as e:  # noqa: BLE001
        return Failure(case, f"check_safety(json_output_path=...) for {data!r} fails: {type(e).__name__}: {e}"), "bad-json"
    finally:
        if os.path.exists(rp):
            os.remove(rp)
    # the report at every verbosity the API accepts, not only the default one
    for v in Severity:
        try:
            tdv = res.to_dict(v)
            json.dumps(tdv)
            check_safety(Pickled.load(data), verbosity=v)
        except Exception as e:  # noqa: BLE001
            return (
                Failure(case, f"report for {data!r} at verbosity {v.name} fails: {type(e).__name__}: {e}"),
                "bad-json",
            )
        if tdv.get("severity") != sev.name:
            return Failure(case, f"report severity at verbosity {v.name} is {tdv.get('severity')!r}, verdict {sev.name}"), "bad"
    if td.get("severity") != sev.name:
        return Failure(case, f"report severity {td.get('severity')!r} != verdict {sev.name}"), "bad"
    klass = "flagged" if sev != Severity.LIKELY_SAFE else "likely-safe"
    if loader_check and sev != Severity.LIKELY_SAFE:
        import fickling
        from fickling.exception import UnsafeFileError

        # every accepted-severity threshold below the verdict: the error must carry the report
        for T in Severity:
            if not (T < sev):
                continue
            try:
                if T == Severity.LIKELY_SAFE:
                    # a stream whose .name is a descriptor number, not a path
                    os.makedirs(env.SCRATCH, exist_ok=True)
                    fpath = os.path.join(env.SCRATCH, f"c19-fd-{os.getpid()}.pkl")
                    with open(fpath, "wb") as fh:
                        fh.write(data)
                    try:
                        with open(os.open(fpath, os.O_RDONLY), "rb") as fh:
                            fickling.load(fh, max_acceptable_severity=T)
                    finally:
                        os.remove(fpath)
                elif T in (Severity.POSSIBLY_UNSAFE, Severity.SUSPICIOUS):
                    # the documented print_results option, in a process whose sys.stdout is absent
                    # (pythonw, a daemon) or a bare write()/flush() object (a log tee)
                    class _Tee:
                        def write(self, s):
                            return len(s)

                        def flush(self):
                            pass

                    saved = sys.stdout
                    sys.stdout = None if T == Severity.POSSIBLY_UNSAFE else _Tee()
                    try:
                        fickling.load(io.BytesIO(data), max_acceptable_severity=T, print_results=True)
                    finally:
                        sys.stdout = saved
                else:
                    fickling.load(io.BytesIO(data), max_acceptable_severity=T)
            except UnsafeFileError as e:
                if _listify(e.info) != _listify(td):
                    return (
                        Failure(
                            case,
                            f"UnsafeFileError.info for {data[:200]!r} (threshold {T.name}) differs from "
                            f"the report: {_short(e.info)} vs {_short(td)}",
                        ),
                        klass,
                    )
                # the error is printed / logged by whoever catches it; it still has to carry the
                # same report afterwards
                try:
                    str(e), repr(e), "".join(traceback.format_exception_only(type(e), e))
                except Exception as e2:  # noqa: BLE001
                    return Failure(case, f"rendering the UnsafeFileError for {data[:200]!r} raises {e2!r}"), klass
                if _listify(e.info) != _listify(td):
                    return (
                        Failure(
                            case,
                            f"UnsafeFileError.info for {data[:200]!r} (threshold {T.name}) no longer equals "
                            f"the report once the error has been rendered: {_short(e.info)} vs {_short(td)}",
                        ),
                        klass,
                    )
            except Exception as e:  # noqa: BLE001
                return (
                    Failure(
                        case,
                        f"checked loader on flagged {data!r} raised {type(e).__name__}: {e} instead "
                        "of UnsafeFileError",
                    ),
                    klass,
                )
            else:
                return Failure(case, f"checked loader (threshold {T.name}) returned for {data!r} rated {sev.name}"), klass
        klass = "flagged+loader"
    return None, klass


def replay(case):
    return judge(bytes.fromhex(case["hex"]), case.get("loader_check", False))[0]


def _nt_cell(cell):
    n, m = cell["name"], cell["module"]
    return n in _RULE_HOME and m not in _RULE_HOME[n]


def _cells(tier):
    ents = cells.entries_c19()
    if tier == "quick":
        return cells.all_cells(
            ents, callees=("global",), disposals=("result", "pop"), framings=("bare",)
        )
    return cells.all_cells(
        ents,
        callees=cells.CALLEE,
        disposals=("result", "pop", "below", "build_target", "memo", "in_list", "arg_benign"),
        framings=("bare", "proto4_frame", "benign_around"),
    )


OS_NAMES = ("getpid", "getppid", "getuid", "getgid", "getcwd", "cpu_count", "times", "uname", "sep", "name",
            "curdir", "pardir", "linesep", "devnull", "extsep", "fspath", "strerror", "urandom", "path", "altsep",
            "pathsep", "defpath", "getcwdb", "geteuid", "getegid", "getpgrp", "getgroups", "ctermid", "umask",
            "get_terminal_size", "getloadavg", "cpu_count", "fsencode", "fsdecode", "get_exec_path", "stat")  # fmt: skip


def many_findings(n, call):
    """n distinct globals of `os` resolved (never called unless call: then os.getpid() once):
    a report of n+ findings, harmless even if a broken loader ran it"""
    names = list(dict.fromkeys(OS_NAMES))[:n]
    body = b"(" + b"".join(f"cos\n{x}\n".encode() for x in names)
    if call:
        body += b"cos\ngetpid\n)R"
    return body + b"t."


def mutate(draw, st, b):
    """byte-level mutations that keep most of a program intact"""
    b = bytearray(b)
    kind = draw(st.sampled_from(["flip", "opswap", "delete", "dup", "truncate_stop"]))
    if len(b) < 2:
        return bytes(b)
    i = draw(st.integers(0, len(b) - 2))
    if kind == "flip":
        b[i] ^= 1 << draw(st.integers(0, 7))
    elif kind == "opswap":
        b[i] = draw(st.sampled_from(list(b"RobQ\x81\x92\x93)(.0122NK]}tle\x85\x86\x90\x91\x94h")))
    elif kind == "delete":
        del b[i]
    elif kind == "dup":
        j = draw(st.integers(i, min(len(b) - 1, i + 6)))
        b[i:i] = b[i:j]
    else:
        return bytes(b[:i]) + b"."
    return bytes(b)


def shards(tier):
    n = 16
    out = [{"kind": "cells", "tier": tier, "part": i, "nparts": n} for i in range(n)]
    out += [{"kind": "harmless", "part": i, "nparts": 4} for i in range(4)]
    out += [{"kind": "many"}, {"kind": "odd_targets"}]
    per = 300 if tier == "quick" else 5000
    out += [{"kind": "random", "n": per, "idx": i} for i in range(12)]
    out += [{"kind": "untyped", "n": per, "idx": i} for i in range(8)]
    out += [{"kind": "mutated", "n": per * 2, "idx": i} for i in range(8)]
    return out


def run_shard(spec, seed):
    res = ShardResult()
    if spec["kind"] in ("cells", "harmless"):
        if spec["kind"] == "cells":
            it = _cells(spec["tier"])
            lc = False
        else:
            it = cells.all_cells(list(HARMLESS))
            lc = True
        total = 0
        for i, cell in enumerate(it):
            if i % spec["nparts"] != spec["part"]:
                continue
            try:
                data = cells.build(cell)
            except cells.Skip as e:
                res.excluded[f"not-constructible:{e}"] += 1
                continue
            f, klass = judge(data, loader_check=lc)
            total += 1
            res.note(None, _nt_cell(cell) or lc, klass=klass, sample={"cell": cell, "hex": data.hex()})
            if f is not None:
                f.case["cell"] = cell
                res.failures.append(f)
                break
        res.exhaustive = True
        res.extra["product_cells"] = total
    elif spec["kind"] == "odd_targets":
        # a mutating opcode or BUILD applied to a value the VM would refuse it on (a static
        # decompiler cannot know): long and short literals of every kind as the target
        long_s = b"\x8c\x28" + b"y" * 40
        lits = {
            "long-str": long_s, "short-str": b"\x8c\x01a", "int": b"K\x07", "none": b"N",
            "long-list": b"](" + b"K\x01" * 15 + b"e", "long-tuple": b"(" + b"K\x02" * 15 + b"t",
            "long-bytes": b"C\x28" + b"z" * 40, "float": b"G?\xf8\x00\x00\x00\x00\x00\x00",
            "long-set": b"\x8f(" + b"".join(b"K" + bytes([i]) for i in range(15)) + b"\x90",
            "glob": b"cverif_objs\nmake\n", "call": b"cverif_objs\nmake\n)R",
        }
        muts = {"SETITEM": b"K\x01K\x02s", "SETITEMS": b"(K\x01K\x02u", "APPEND": b"K\x01a", "APPENDS": b"(K\x01K\x02e",
                "ADDITEMS": b"(K\x01\x90", "BUILD": b"}b", "BUILD-str": b"\x8c\x01sb"}  # fmt: skip
        for ln, lit in lits.items():
            for mn, mut in muts.items():
                for tail in (b".", b"0N.", b"\x94\x85."):
                    data = lit + mut + tail
                    f, klass = judge(data)
                    res.note(data, klass != "refused", klass=[klass, "odd-target"], sample={"target": ln, "op": mn, "hex": data.hex()})
                    if f is not None:
                        res.failures.append(f)
                        return res
        res.exhaustive = True
    elif spec["kind"] == "many":
        # global names that are legal text but awkward to write down: unpaired surrogates (the
        # pickler encodes them with surrogatepass), non-BMP, right-to-left, NUL
        for mod, name in (("os", "\ud800x"), ("m\udfff", "f"), ("os", "\U0001d11e"), ("\u202eso", "metsys"), ("o\x00s", "f")):
            for tail in (b".", b")R."):
                data = (b"\x80\x04" + b"\x8c" + bytes([len(mod.encode("utf-8", "surrogatepass"))]) + mod.encode("utf-8", "surrogatepass")
                        + b"\x8c" + bytes([len(name.encode("utf-8", "surrogatepass"))]) + name.encode("utf-8", "surrogatepass") + b"\x93" + tail)  # fmt: skip
                f, klass = judge(data)
                res.note(data, klass != "refused", klass=[klass, "awkward-name"], sample={"hex": data.hex()})
                if f is not None:
                    res.failures.append(f)
                    return res
        # a finding that names a position in the pickle, at every position up to 300: a second (and
        # third) PROTO opcode after k filler opcodes, a late PROTO of another version
        for k in range(0, 301):
            for data in (b"\x80\x02" + b"N0" * k + b"\x80\x02N.",
                         b"\x80\x02N" + b"0N" * k + b"\x80\x02.",
                         b"\x80\x04" + b"N0" * (k // 2) + b"\x80\x04" + b"N0" * (k - k // 2) + b"\x80\x03N.",
                         b"N0" * k + b"\x80\x05N."):
                f, klass = judge(data, loader_check=k % 25 == 0)
                res.note(data, True, klass=[klass, "positioned-finding"], sample={"hex": data.hex()[:120], "fillers": k})
                if f is not None:
                    res.failures.append(f)
                    return res
        for n in (1, 2, 5, 8, 12, 16, 24, 32):
            for call in (False, True):
                data = many_findings(n, call)
                f, klass = judge(data, loader_check=True)
                res.note(data, True, klass=[klass, "many-findings"], sample={"hex": data.hex()[:200], "imports": n})
                if f is not None:
                    res.failures.append(f)
                    return res
    else:
        globs = tuple(
            (m, n)
            for m, n in (
                ("os", "eval"), ("foo.bar", "exec"), ("collections", "open"), ("numpy", "compile"),
                ("operator", "getitem"), ("torch", "load"), ("builtins", "getattr"),
                ("subprocess", "system"), ("torch.storage", "_load_from_bytes"),
                ("datetime", "attrgetter"), ("pandas", "runstring"), ("code", "_run_code"),
                # names that are str.format / %-templates (legal in GLOBAL; they decompile)
                ("os.{x.y}", "system"), ("{}", "eval"), ("torch.{0}", "load"), ("%s.%(a)s", "exec"),
                ("numpy.{", "runstring"),
            )
        )  # fmt: skip
        if spec["kind"] == "random":
            prof = asm.full_profile(globs)

            def body(prog):
                f, klass = judge(prog.data)
                res.note(prog.data, prog.ncalls > 0, klass=klass, sample={"random": prog.data.hex()})
                return f

            hypothesis_search(asm.programs(prof, max_len=24), body, seed, spec["n"], res, batch=500)
        else:
            # "whenever a pickle can be decompiled": that includes programs the real VM would
            # reject at run time (a constant where a callable is expected, ...), which a static
            # decompiler accepts
            from hypothesis import strategies as st

            prof = asm.full_profile(globs + (("builtins", "len"), ("collections", "OrderedDict.fromkeys")),
                                    any_callee=True, unique_attr_names=False, no_mutation_after_capture=False)  # fmt: skip
            progs = asm.programs(prof, max_len=16)
            if spec["kind"] == "untyped":
                strat = progs.map(lambda p: p.data)
            else:
                strat = st.composite(lambda draw: mutate(draw, st, draw(progs).data))()

            def body(data):
                f, klass = judge(data)
                res.note(data, klass != "refused", klass=[klass, spec["kind"]], sample={spec["kind"]: data.hex()})
                return f

            hypothesis_search(strat, body, seed, spec["n"], res, batch=500)
    return res

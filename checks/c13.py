"""C13  Answers depend only on the bytes: deterministic, repeatable, no observer effect."""
import contextlib
import hashlib
import io
import json
import os
import pickle
import subprocess
import sys

from checks import _progdiff
from vlib import asm, env, vocab
from vlib.runner import Failure, HarnessError, ShardResult, hypothesis_search

ID = "C13"
LEVEL = "exploration"
RULE = (
    "accepted pickles (pickle.dumps of generated plain values and instances at protocols 0-5; "
    "typed-assembler programs over the full alphabet incl. DICT, FROZENSET, sets, unused "
    "variables) x a Hypothesis-drawn sequence (<= 12) of read-only queries {decompile text, "
    "check_safety, Trace.run, has_import, has_call, has_non_setstate_call, properties.imports, "
    "unsafe_imports(), non_standard_imports(), dumps(), is_likely_safe(file)} with repetition, "
    "addressed at random to one of two independently parsed copies. Oracle (metamorphic): every "
    "answer of a kind equals the first answer of that kind (text; severity; frozenset of "
    "(analysis name, severity, message)); dumps() equals the input after every query. "
    "Cross-process: a corpus of generated pickles is digested by two fresh interpreters with "
    "PYTHONHASHSEED=0 and =4242, one analysing the corpus front-to-back and the other back-to-"
    "front (answers must not depend on what was analysed before); sequences may also analyse an "
    "unrelated decoy pickle (numerically equal constants of other types) between queries, and "
    "apply an edit (insert() of push...POP runs incl. STACK_GLOBAL, GLOBAL, a call, PROTO; or a "
    "two-step edit whose second step inserts a lone STACK_GLOBAL after further queries) to both copies, after which every answer must equal that of a never-queried parse of "
    "the edited bytes. "
    "Non-trivial = the sequence asks some "
    "kind again after a different kind, and the pickle contains a dict/set/frozenset or yields "
    ">= 2 findings; distinct = distinct (bytes, query sequence)."
    ' Pickles that parse but are refused by the decompiler are inside the repeatability clauses;'
    ' vocabularies include Python-2 spellings, names Python cannot spell and out-of-band buffer'
    ' opcodes.'
)
ASSUMPTIONS = [
    "detailed_results() and the joined `analysis` string are order-dependent presentation and "
    "are not compared (the statement speaks of the set of findings)",
    "a query that raises must raise the same exception type every time",
    "pickles fickling cannot even parse are outside the quantifier; pickles it parses but refuses "
    "to decompile are inside for the repeatability clauses (a query that raises must raise the same "
    "exception type every time, on either copy); the has_import quirk that once forced them out was "
    "repaired as FX12",
]

# globals no Python source can spell (GLOBAL takes any line): whatever a tree does with them, it
# does the same thing every time
ODD_NAMES = (("mod", "class"), ("lambda", "x"), ("a-b", "c"), ("mod", "1abc"), ("pkg.def", "f"))


def _mk_decoys():
    out = []
    for v in (1, 1.0, True, 0, 0.0, -0.0, False, "1", b"1", [1.0, 1], (True, 1), {1: 1.0}, 2**31, float(2**31)):
        for proto in (0, 2, 4):
            out.append(pickle.dumps(v, protocol=proto))
    return tuple(dict.fromkeys(out))


_HUGE = 10**5000
_HB = _HUGE.to_bytes(2100, "little", signed=True)
DECOYS = _mk_decoys() + (
    # integers beyond the interpreter's int<->str conversion limit, binary and decimal
    b"\x8b" + len(_HB).to_bytes(4, "little") + _HB + b".",
    b"N." + b"L1" + b"0" * 5000 + b"L\n.",
    b"L-1" + b"0" * 5000 + b"L\n.",
    # many discarded call results (more unused variables than any report limit one might think of)
    b"".join(b"cos\ngetpid\n)R0" for _ in range(70)) + b"N.",
    b"(" + b"".join(b"ccollections\nOrderedDict\n)R" for _ in range(130)) + b"0" * 129 + b"0N.",
    # calls whose source text is between 33 and 150 characters long (what a report may abbreviate)
    b"".join(b"cbuiltins\nprint\n(S'" + ch * n + b"'\ntR0" for ch, n in ((b"a", 40), (b"b", 40), (b"c", 90), (b"d", 140))) + b"N.",
)

QUERIES = ("source", "safety", "safety_custom", "trace", "interp_custom", "trace_custom", "has_import", "has_call", "has_nss_call", "imports",
           "unsafe_imports", "nonstd_imports", "dumps", "likely_safe_file")  # fmt: skip


_CUSTOM = {}


def _custom_analyzer():
    if "a" not in _CUSTOM:
        from fickling.analysis import Analysis, Analyzer

        _CUSTOM["a"] = Analyzer(a for a in Analysis.ALL)
    return _CUSTOM["a"]


def ask(p, q, data, path):
    import ast

    from fickling.analysis import check_safety, is_likely_safe
    from fickling.fickle import Interpreter
    from fickling.tracing import Trace

    try:
        if q == "source":
            return ("source", ast.unparse(p.ast))
        if q == "safety":
            r = check_safety(p)
            return (
                "safety",
                r.severity.name,
                frozenset((x.analysis_name, x.severity.name, x.message) for x in r.results),
            )
        if q == "safety_custom":
            # an Analyzer of one's own, built once (from a one-shot iterable) and used for every call
            r = check_safety(p, analyzer=_custom_analyzer())
            return (
                "safety_custom",
                r.severity.name,
                frozenset((x.analysis_name, x.severity.name, x.message) for x in r.results),
            )
        if q == "trace":
            with contextlib.redirect_stdout(io.StringIO()):
                tree = Trace(Interpreter(p)).run()
            return ("source", ast.unparse(tree))
        if q == "interp_custom":
            # what the CLI does for the 2nd, 3rd... pickle of a stack
            tree = Interpreter(p, first_variable_id=3, result_variable="result1").to_ast()
            return ("source_custom", ast.unparse(tree))
        if q == "trace_custom":
            with contextlib.redirect_stdout(io.StringIO()):
                tree = Trace(Interpreter(p, first_variable_id=3, result_variable="result1")).run()
            return ("source_custom", ast.unparse(tree))
        if q == "has_import":
            return ("has_import", p.has_import)
        if q == "has_call":
            return ("has_call", p.has_call)
        if q == "has_nss_call":
            return ("has_nss_call", p.has_non_setstate_call)
        if q == "imports":
            return ("imports", tuple(ast.unparse(n) for n in p.properties.imports))
        if q == "unsafe_imports":
            return ("unsafe_imports", tuple(ast.unparse(n) for n in p.unsafe_imports()))
        if q == "nonstd_imports":
            return ("nonstd_imports", tuple(ast.unparse(n) for n in p.non_standard_imports()))
        if q == "dumps":
            return ("dumps", p.dumps())
        if q == "likely_safe_file":
            return ("likely_safe_file", is_likely_safe(path))
    except RecursionError:
        raise
    except Exception as e:  # noqa: BLE001
        kind = {"trace": "source", "interp_custom": "source_custom", "trace_custom": "source_custom"}.get(q, q)
        return (kind, "raised", type(e).__name__)
    raise ValueError(q)


def _edit_ops(k):
    """stack-neutral opcode runs (push ... POP) that can be inserted anywhere before STOP"""
    from fickling import fickle as F

    k %= 6
    if k == 0:
        return [F.ConstantOpcode.new("a"), F.Pop()]
    if k == 1:
        return [F.Global.create("os", "system"), F.Pop()]
    if k == 2:
        return [F.ConstantOpcode.new("os"), F.ConstantOpcode.new("getpid"), F.StackGlobal(), F.Pop()]
    if k == 3:
        return [F.Global.create("builtins", "eval"), F.ConstantOpcode.new("1"), F.TupleOne(), F.Reduce(), F.Pop()]
    if k == 4:
        return [F.Proto.create(2), F.NoneOpcode(), F.Pop()]
    return [F.Mark(), F.ConstantOpcode.new(7), F.PopMark()]


def apply_edit(p, k, at):
    """the same edit through the sequence interface (insert(), one opcode at a time)"""
    from fickling import fickle as F

    n = len(p)
    i = at % n if n else 0
    if k == 6:
        # first half of a two-step edit: two text constants, one of them popped again
        for j, op in enumerate([F.ConstantOpcode.new("os"), F.ConstantOpcode.new("getpid"), F.Pop()]):
            p.insert(i + j, op)
        return
    if k == 7:
        # second half, possibly many queries later: a single STACK_GLOBAL between them and the POP
        ops = list(p)
        for j in range(len(ops) - 2):
            if (ops[j].name, ops[j + 1].name, ops[j + 2].name) == ("SHORT_BINUNICODE", "SHORT_BINUNICODE", "POP") \
                    and (ops[j].arg, ops[j + 1].arg) == ("os", "getpid"):
                p.insert(j + 2, F.StackGlobal())
                return
        return
    for j, op in enumerate(_edit_ops(k)):
        p.insert(i + j, op)


def check_sequence(data, seq, path):
    """seq: list of (query, copy index 0/1). Returns (Failure|None, nfindings)"""
    from fickling.fickle import Pickled

    import ast

    try:
        # copy 1 is parsed as the second member of a stack (non-zero stream offset)
        from fickling.fickle import StackedPickle

        second = StackedPickle.load(pickle.dumps(None, protocol=2) + data)
        copies = [Pickled.load(data), second[1] if len(second) >= 2 else Pickled.load(data)]
    except RecursionError:
        return None, -1
    except Exception:  # noqa: BLE001
        return None, -1
    accepted = True
    try:
        ast.unparse(Pickled.load(data).ast)
    except RecursionError:
        return None, -1
    except Exception:  # noqa: BLE001
        # fickling parses the bytes but refuses to decompile them: then it has to refuse every
        # time (a query that raises must raise the same way when it is asked again)
        accepted = False
    first = {}
    nfind = 0
    case = {"hex": data.hex(), "seq": [list(x) for x in seq]}
    for i, (q, which) in enumerate(seq):
        if q == "edit":
            # the same edit on both copies (one or both of which have answered queries, i.e. hold
            # caches); from here on the answers must be those of a never-queried parse of the
            # edited bytes - the history of an object is not part of the bytes
            try:
                for c in copies:
                    apply_edit(c, which[0], which[1])
                edited = copies[0].dumps()
                same = copies[1].dumps() == edited
            except Exception:  # noqa: BLE001 - the edit itself was refused
                return None, nfind
            if not same:
                return Failure(case, f"the same edit on two copies of {data!r} gives different bytes"), nfind
            data = edited
            try:
                with open(path, "wb") as fh:
                    fh.write(data)
                fresh = Pickled.load(data)
                ast.unparse(Pickled.load(data).ast)
            except RecursionError:
                return None, nfind
            except Exception:  # noqa: BLE001 - no longer an accepted pickle
                return None, nfind
            first = {}
            for fq in QUERIES:
                a = ask(fresh, fq, data, path)
                first.setdefault(a[0], (f"fresh parse after edit at step {i}", a))
            continue
        if q == "decoy":
            # analyse an unrelated pickle in between (numerically-equal constants of other types)
            try:
                d = Pickled.load(DECOYS[which % len(DECOYS)])
                ast.unparse(d.ast)
            except Exception:  # noqa: BLE001
                pass
            continue
        ans = ask(copies[which], q, data, path)
        kind = ans[0]
        if kind == "safety" and len(ans) == 3 and isinstance(ans[2], frozenset):
            nfind = max(nfind, len(ans[2]))
        if kind in first:
            # (two *different* ways of asking for the program - plain and traced - that both
            # refuse need not refuse with the same exception: the tracer prints every statement
            # as it goes and may trip over an earlier one.  Same way of asking: same refusal.)
            both_refuse_differently_asked = (
                len(ans) == 3 and ans[1] == "raised" and len(first[kind][1]) == 3 and first[kind][1][1] == "raised"
                and first[kind][2] != q
            )
            if first[kind][1] != ans and not both_refuse_differently_asked:
                return (
                    Failure(
                        case,
                        f"answer to query {i} ({q} on copy {which}) differs from the first "
                        f"{kind!r} answer (query {first[kind][0]}) for {data!r}: "
                        f"{_show(ans)} vs {_show(first[kind][1])}",
                    ),
                    nfind,
                )
        else:
            first[kind] = (i, ans, q)
        for c in copies:
            try:
                out = c.dumps()
            except Exception as e:  # noqa: BLE001
                return Failure(case, f"dumps() raised {e!r} after query {i} ({q})"), nfind
            if out != copies[0].dumps() or (len(out) <= len(data) and not data.startswith(out)):
                return Failure(case, f"dumps() changed after query {i} ({q}) on {data!r}"), nfind
    return None, (nfind if accepted else -2)


def _show(ans):
    s = repr(ans)
    return s if len(s) < 500 else s[:500] + "..."


def digest_item(data):
    """what the cross-process comparison hashes (pure function of the bytes)"""
    import ast

    from fickling.analysis import check_safety
    from fickling.fickle import Interpreter, Pickled
    from fickling.tracing import Trace

    out = []

    def part(fn):
        # every face is asked even when an earlier one refuses
        try:
            out.append(fn())
        except Exception as e:  # noqa: BLE001
            out.append("raised:" + type(e).__name__)

    try:
        p = Pickled.load(data)
    except Exception as e:  # noqa: BLE001
        return hashlib.sha256(json.dumps(["parse raised:" + type(e).__name__]).encode()).hexdigest()
    part(lambda: ast.unparse(p.ast))

    def verdict():
        r = check_safety(p)
        return [r.severity.name, sorted(repr((x.analysis_name, x.severity.name, x.message)) for x in r.results)]

    part(verdict)

    def traced():
        with contextlib.redirect_stdout(io.StringIO()):
            return ast.unparse(Trace(Interpreter(Pickled.load(data))).run())

    part(traced)

    def cli_text():
        # what the command line prints for these bytes (its own unparse path)
        from fickling import cli

        path = os.path.join(_scratch_dir(), f"digest-{os.getpid()}.pkl")
        with open(path, "wb") as fh:
            fh.write(data)
        buf = io.StringIO()
        try:
            with contextlib.redirect_stdout(buf), contextlib.redirect_stderr(io.StringIO()):
                rc = cli.main(["fickling", path])
        except SystemExit as e:
            rc = e.code
        finally:
            _rm(path)
        return [rc, buf.getvalue()]

    part(cli_text)
    part(lambda: p.dumps().hex())
    part(lambda: len(__import__("fickling.fickle", fromlist=["StackedPickle"]).StackedPickle.load(data)))
    return hashlib.sha256(json.dumps(out).encode()).hexdigest()


def replay(case):
    if "seq" in case:
        path = _scratch_file(bytes.fromhex(case["hex"]))
        try:
            return check_sequence(bytes.fromhex(case["hex"]), [tuple(x) for x in case["seq"]], path)[0]
        finally:
            _rm(path)
    # cross-process case
    data = bytes.fromhex(case["hex"])
    corpus = [bytes.fromhex(x) for x in case.get("context", [])] + [data]
    d0, d1 = _child_digests(corpus, "0"), _child_digests(corpus, "4242", reverse=True)
    if d0[-1] != d1[-1]:
        return Failure(
            case,
            f"answers for {data!r} differ between two fresh processes (different PYTHONHASHSEED, "
            "different order of previously analysed pickles)",
        )
    return None


def _scratch_dir():
    d = os.path.join(env.SCRATCH, f"c13-{os.getpid()}")
    os.makedirs(d, exist_ok=True)
    return d


def _scratch_file(data):
    path = os.path.join(_scratch_dir(), "case.pkl")
    with open(path, "wb") as f:
        f.write(data)
    return path


def _rm(path):
    with contextlib.suppress(OSError):
        os.remove(path)
    with contextlib.suppress(OSError):
        os.rmdir(os.path.dirname(path))


def _child_digests(corpus, hashseed, reverse=False):
    """digests in corpus order; with reverse=True the child *analyses* the corpus back to
    front (answers must not depend on what the process analysed before)"""
    code = (
        "import sys, json\n"
        f"sys.path.insert(0, {env.VERIF_ROOT!r})\n"
        "from vlib import env\n"
        "from checks import c13\n"
        "items = [bytes.fromhex(l) for l in sys.stdin.read().split()]\n"
        f"order = list(range(len(items)))[::{-1 if reverse else 1}]\n"
        "out = {}\n"
        "for i in order:\n"
        "    out[i] = c13.digest_item(items[i])\n"
        "print(json.dumps([out[i] for i in range(len(items))]))\n"
    )
    e = dict(os.environ)
    e["PYTHONHASHSEED"] = hashseed
    e["VERIF_REPO"] = env.REPO
    if reverse:
        # ... nor on the size of the terminal the process believes it has
        e["COLUMNS"], e["LINES"] = "200", "60"
    else:
        e.pop("COLUMNS", None)
        e.pop("LINES", None)
    e.pop("PYTHONOPTIMIZE", None)
    p = subprocess.run(
        # the second interpreter also runs with assertions disabled (python -O): answers may not
        # depend on that either
        [sys.executable] + (["-O"] if reverse else []) + ["-c", code],
        input="\n".join(d.hex() for d in corpus).encode(),
        capture_output=True,
        env=e,
        cwd=env.VERIF_ROOT,
    )
    if p.returncode != 0:
        raise HarnessError(f"digest child failed: {p.stderr.decode()[-2000:]}")
    return json.loads(p.stdout.decode().strip().splitlines()[-1])


def _interesting(data):
    names = set(_progdiff.op_names(data))
    return bool(names & {"DICT", "EMPTY_DICT", "EMPTY_SET", "FROZENSET", "ADDITEMS", "SETITEM",
                         "SETITEMS"})  # fmt: skip


def _seq_nt(seq):
    if any(q == "edit" for q, _ in seq[1:-1]):
        return True
    kinds = [("source" if q == "trace" else q) for q, _ in seq]
    for i, k in enumerate(kinds):
        if k in kinds[:i] and any(x != k for x in kinds[kinds.index(k) + 1 : i]):
            return True
    return False


def _case_strategy():
    from hypothesis import strategies as st

    from vlib import values

    # incl. the protocol-5 out-of-band buffer opcodes: whatever a tree does with them, it has to
    # do the same thing every time
    prof = asm.full_profile(vocab.ASM_GLOBS + vocab.ASM_GLOBS_PY2 + ODD_NAMES, buffers=True)
    progs = asm.programs(prof, max_len=24).map(lambda p: p.data)
    nat = st.tuples(
        st.one_of(values.plain_values(), values.instance_values()), st.sampled_from(range(6))
    ).map(lambda t: _dumps(*t))
    data = st.one_of(progs, nat).filter(lambda b: b is not None)
    query = st.tuples(st.sampled_from(QUERIES), st.sampled_from([0, 1]))
    free = st.lists(
        st.one_of(
            query,
            st.tuples(st.just("decoy"), st.integers(0, len(DECOYS) - 1)),
            st.tuples(st.just("edit"), st.tuples(st.integers(0, 7), st.integers(0, 30))),
        ),
        min_size=2, max_size=12,
    )
    # a two-step edit with queries (i.e. populated caches) before, between and after the steps
    qs = st.lists(query, min_size=1, max_size=3)
    two_step = st.tuples(qs, st.integers(0, 30), qs, qs).map(
        lambda t: t[0] + [("edit", (6, t[1]))] + t[2] + [("edit", (7, 0))] + t[3]
    )
    return st.tuples(data, st.one_of(free, free, free, two_step))


def _dumps(v, proto):
    try:
        return pickle.dumps(v, protocol=proto)
    except Exception:  # noqa: BLE001
        return None


def shards(tier):
    per = 250 if tier == "quick" else 15000
    out = [{"kind": "sequences", "n": per, "idx": i} for i in range(16)]
    out += [{"kind": "xproc", "n": 300 if tier == "quick" else 4000, "idx": i} for i in range(4)]
    return out


def run_shard(spec, seed):
    res = ShardResult()
    if spec["kind"] == "sequences":
        path = os.path.join(_scratch_dir(), "case.pkl")

        def body(case):
            data, seq = case
            with open(path, "wb") as f:
                f.write(data)
            f_, nfind = check_sequence(data, seq, path)
            nt = _seq_nt(seq) and (_interesting(data) or nfind >= 2)
            res.note(
                (data.hex(), seq),
                nt,
                klass=["accepted" if nfind >= 0 else "parse-refused" if nfind == -1 else "decompile-refused"],
                sample={"hex": data.hex(), "queries": [f"{q}@{w}" for q, w in seq]},
            )
            return f_

        try:
            hypothesis_search(_case_strategy(), body, seed, spec["n"], res, batch=500)
        finally:
            _rm(path)
    else:
        from hypothesis import strategies as st  # noqa: F401

        corpus = []

        def collect(case):
            corpus.append(case[0])
            return None

        hypothesis_search(_case_strategy(), collect, seed, spec["n"], res, batch=spec["n"])
        corpus = sorted(set(corpus) | set(DECOYS))
        d0 = _child_digests(corpus, "0")
        d1 = _child_digests(corpus, "4242", reverse=True)
        for i, (data, a, b) in enumerate(zip(corpus, d0, d1)):
            res.note(data, _interesting(data), klass="xproc", sample={"xproc": data.hex()})
            if a != b:
                # minimise the context: which single other item is enough to change the answer?
                ctx = []
                for j, other in enumerate(corpus):
                    if j != i and _child_digests([other, data], "0")[-1] != _child_digests([data], "0")[-1]:
                        ctx = [other.hex()]
                        break
                res.failures.append(
                    Failure(
                        {"hex": data.hex(), "context": ctx},
                        f"answers for {data!r} differ between two fresh processes (PYTHONHASHSEED 0 "
                        "vs 4242, corpus analysed front-to-back vs back-to-front, python vs python -O, terminal size unset vs 200x60)"
                        + (f"; analysing {bytes.fromhex(ctx[0])!r} first is enough to change them" if ctx else ""),
                    )
                )
                break
    return res

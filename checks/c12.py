"""C12  Hook lifecycle: protection holds while armed and is restored exactly on exit."""
import io

from vlib import env
from vlib.runner import Failure, Found, ShardResult, derive_seed, hypothesis_settings
from vlib.sandbox import reset_pickle_bindings

ID = "C12"
LEVEL = "exploration"
RULE = (
    "Hypothesis RuleBasedStateMachine over histories (<= 25 steps, contexts nested to depth 3) of "
    "{arm global check, activate ML env with/without additions, remove hooks, enter safety "
    "context (a fresh manager, one created earlier, or the innermost open one again), leave normally, leave by exception (LIFO), probe pickle.load / pickle.loads / "
    "_pickle.load / _pickle.loads}. Oracle = explicit lifecycle model of the four bindings "
    "(orig / check / ml) plus a stack of entry snapshots: after every step each binding the model "
    "calls 'orig' must BE the function object captured before fickling was imported (identity), "
    "and each binding the model calls protected must refuse a flagged probe (foreign global "
    "calling a harmless sink) with UnsafeFileError and an empty sink log, and additionally refuse the "
    "pickle that only *its* protection objects to (check: a SUSPICIOUS call of the allow-listed "
    "collections.OrderedDict; ml: a bare reference to datetime.date, which the check rates "
    "LIKELY_SAFE), so that one protection standing in for the other is seen; __exit__ must not "
    "swallow exceptions. A protected load binding is also handed a stream positioned behind a flagged pickle (nothing in front of the "
    "position may run); managers given the top of the severity scale as threshold are entered too (not probed inside, "
    "what leaving restores is). Any lifecycle operation may run on a worker thread that is joined at once (a block "
    "entered on one thread and left on another): the history stays one sequence. Non-trivial = history nests a context inside another protection, leaves "
    "by exception, or arms two families; distinct = distinct histories."
    ' Also: a pickle calling each addable name the current activation did not add must be refused'
    ' through every ML-protected binding; under a check armed on top of an active ML environment'
    ' the allowlist still refuses; managers created earlier and entered later, and the innermost'
    ' open manager entered again.'
)
ASSUMPTIONS = [
    "activate / remove are generated only at context depth 0: their effect on an open context's "
    "exit is not determined by the statement (DESIGN.md C12/B)",
    "pickle.loads under the global check alone is modelled as unprotected (the documented scope of "
    "always_check_safety is pickle.load)",
]

FLAGGED = b"cverif_sink\nsink\n(S'c12'\ntR."
# pickles that tell the two protections apart: the static check flags a call of OrderedDict
# (SUSPICIOUS) which the built-in ML allowlist admits; the ML environment refuses datetime.date,
# which the static check rates LIKELY_SAFE when it is only referenced.  Only refusals are asserted.
ONLY_CHECK_FLAGS = b"ccollections\nOrderedDict\n)R."
ONLY_ML_REFUSES = b"cdatetime\ndate\n."
BINDINGS = ("pickle.load", "pickle.loads", "_pickle.load", "_pickle.loads")


def get_binding(name):
    import _pickle
    import pickle

    mod, attr = name.split(".")
    return getattr(pickle if mod == "pickle" else _pickle, attr)


class Model:
    def __init__(self):
        self.b = {n: "orig" for n in BINDINGS}
        self.stack = []
        self.adds = frozenset()
        self.ml_active = False

    def arm(self):
        self.b["pickle.load"] = "check"

    def activate(self, adds=()):
        for n in BINDINGS:
            self.b[n] = "ml"
        self.adds = frozenset(adds)
        self.ml_active = True

    def remove(self):
        for n in BINDINGS:
            self.b[n] = "orig"
        self.ml_active = False

    def enter(self):
        self.stack.append(self.b["pickle.load"])
        self.b["pickle.load"] = "check"

    def enter_lenient(self):
        # a block whose manager was given the top of the severity scale as its threshold: some
        # check is in force, how much it still refuses is the implementation's business - not
        # probed; what counts is what leaving it restores
        self.stack.append(self.b["pickle.load"])
        self.b["pickle.load"] = "lenient"

    def leave(self):
        self.b["pickle.load"] = self.stack.pop()


def probe(name, data=FLAGGED):
    """('executed'|'refused'|'error', detail)"""
    import verif_sink
    from fickling.exception import UnsafeFileError

    fn = get_binding(name)
    verif_sink.reset()
    try:
        if name.endswith(".load"):
            fn(io.BytesIO(data))
        else:
            fn(data)
        out = ("executed" if verif_sink.LOG or data is not FLAGGED else "returned-without-running", None)
    except UnsafeFileError:
        out = ("refused-but-ran" if verif_sink.LOG else "refused", None)
    except Exception as e:  # noqa: BLE001
        out = ("error", repr(e))
    verif_sink.reset()
    return out


def probe_offset(name):
    """a stream that holds a flagged pickle first and is handed over positioned behind it, on a
    harmless one: None, or what went wrong"""
    import verif_sink

    fn = get_binding(name)
    verif_sink.reset()
    stream = io.BytesIO(FLAGGED + b"N.")
    stream.seek(len(FLAGGED))
    try:
        fn(stream)
    except Exception:  # noqa: BLE001 - refusing is fine; running what lies in front is not
        pass
    ran = list(verif_sink.LOG)
    verif_sink.reset()
    if ran:
        return (f"a stream positioned behind a flagged pickle (on a harmless one) was loaded through {name}: the "
                f"flagged pickle in front of the position ran {ran!r}")
    return None


CANARY = b"cverif_canary\nfire\n."  # importable, not imported: resolving it would run its module code
ADDABLE_PROBES = {
    "fractions.Fraction": b"cfractions\nFraction\n(I1\nI2\ntR.",
    "collections.Counter": b"ccollections\nCounter\n)R.",
}
_DIST = {}


def _in_builtin_allowlist(dotted):
    import fickling.ml as ml

    module, name = dotted.rsplit(".", 1)
    return name in _BASE_SNAPSHOT.setdefault("s", {m: set(v) for m, v in ml.ML_ALLOWLIST.items()}).get(module, ())


_BASE_SNAPSHOT = {}


def _distinguishes(state):
    """the distinguishing pickles are only used where this tree's own verdict / allowlist makes
    them distinguishing (what the check flags and what the allowlist contains is not fixed by
    the property)"""
    if state not in _DIST:
        from fickling.analysis import Severity, check_safety
        from fickling.fickle import Pickled
        import fickling.ml as ml

        try:
            if state == "check":
                _DIST[state] = check_safety(Pickled.load(ONLY_CHECK_FLAGS)).severity > Severity.LIKELY_SAFE
            else:
                _DIST[state] = "date" not in ml.ML_ALLOWLIST.get("datetime", ())
        except Exception:  # noqa: BLE001
            _DIST[state] = False
    return _DIST[state]


_SPARE = []


class Boom(Exception):
    pass


def step(model, ctxs, st, spare=None):
    spare = spare if spare is not None else _SPARE
    import fickling
    import fickling.hook as hook

    kind = st[0]
    threaded = kind.endswith("@t")
    if threaded:
        kind = kind[:-2]

    def call(fn, *a, **k):
        """the library call of this step, on this thread or (steps marked @t) on a worker thread
        that is joined before anything else happens: the history stays one sequence, only the
        thread an operation runs on differs (a block entered in a set-up thread and left by the
        main one, executor glue)"""
        if not threaded:
            return fn(*a, **k)
        import threading

        box = {}

        def run():
            try:
                box["r"] = fn(*a, **k)
            except BaseException as e:  # noqa: BLE001
                box["e"] = e

        t = threading.Thread(target=run)
        t.start()
        t.join()
        if "e" in box:
            raise box["e"]
        return box.get("r")

    if kind == "arm":
        call(fickling.always_check_safety)
        model.arm()
    elif kind == "activate":
        call(hook.activate_safe_ml_environment, also_allow=list(st[1]) or None)
        model.activate(st[1])
    elif kind == "remove":
        call(hook.remove_hook)
        model.remove()
    elif kind == "enter":
        c = fickling.check_safety()
        call(c.__enter__)
        ctxs.append(c)
        model.enter()
    elif kind == "enter_lenient":
        from fickling.analysis import Severity
        from fickling.context import FicklingContextManager

        c = FicklingContextManager(max_acceptable_severity=Severity.OVERTLY_MALICIOUS)
        c._verif_lenient = True
        call(c.__enter__)
        ctxs.append(c)
        model.enter_lenient()
    elif kind == "create_lenient":
        from fickling.analysis import Severity
        from fickling.context import FicklingContextManager

        c = FicklingContextManager(max_acceptable_severity=Severity.OVERTLY_MALICIOUS)
        c._verif_lenient = True
        spare.append(c)
    elif kind == "create":
        # a manager object made now and entered later (possibly after the protection changed)
        spare.append(fickling.check_safety())
    elif kind == "enter_spare":
        if spare:
            c = spare.pop(0)
            call(c.__enter__)
            ctxs.append(c)
            model.enter_lenient() if getattr(c, "_verif_lenient", False) else model.enter()
    elif kind == "reenter":
        # the manager of the innermost open block is entered again (and left again later)
        if ctxs:
            c = ctxs[-1]
            call(c.__enter__)
            ctxs.append(c)
            model.enter_lenient() if getattr(c, "_verif_lenient", False) else model.enter()
    elif kind == "leave":
        c = ctxs.pop()
        r = call(c.__exit__, None, None, None)
        model.leave()
        if r:
            return "__exit__ returned a true value on a normal exit"
    elif kind == "leave_exc":
        c = ctxs.pop()
        e = Boom("x")
        r = call(c.__exit__, Boom, e, None)
        model.leave()
        if r:
            return "__exit__ swallowed the exception (returned a true value)"
    elif kind == "probe":
        pass
    else:
        raise ValueError(st)
    # invariant over all four bindings (a probe step just makes it explicit in the history)
    for i, n in enumerate(BINDINGS):
        cur = get_binding(n)
        state = model.b[n]
        if state == "orig":
            if cur is not env.PICKLE_ORIG[i]:
                return f"{n} should be the original function again but is {cur!r}"
        elif state == "lenient":
            continue
        else:
            got, detail = probe(n)
            if got != "refused":
                return (
                    f"{n} should be protected ({state}) but a flagged pickle through it was {got} "
                    f"{detail or ''}"
                )
            if n.endswith(".load"):
                msg = probe_offset(n)
                if msg:
                    return f"{n} is protected ({state}) but {msg}"
            import sys

            for m in [m for m in sys.modules if m.split(".")[0] == "verif_canary"]:
                del sys.modules[m]
            got, detail = probe(n, CANARY)
            leaked = [m for m in sys.modules if m.split(".")[0] == "verif_canary"]
            for m in leaked:
                del sys.modules[m]
            if got != "refused" or leaked:
                return (f"{n} should be protected ({state}) but a pickle naming an importable, not yet imported module "
                        f"was {got}; modules imported: {leaked}")
            # "precisely the protection that was in force": the binding must be the protection
            # the model names, not merely some protection
            if state == "ml":
                # a name some activation may add, but the current one did not: the protection in
                # force is this activation's, not an earlier one's
                for name, data in ADDABLE_PROBES.items():
                    if name in model.adds or _in_builtin_allowlist(name):
                        continue
                    got, detail = probe(n, data)
                    if got != "refused":
                        return (f"{n} is under the ML environment activated with additions {sorted(model.adds)} "
                                f"but a pickle calling {name} through it was {got} {detail or ''}")
            if state == "check" and model.ml_active and _distinguishes("ml"):
                # the check was armed on top of an ML environment nobody deactivated: what the
                # allowlist refuses stays refused (the check hands accepted bytes to pickle.loads,
                # which the environment still mediates)
                got, detail = probe(n, ONLY_ML_REFUSES)
                if got != "refused":
                    return (f"{n}: the safety check is armed on top of an active ML environment, but a global outside "
                            f"the allowlist (datetime.date) through it was {got} {detail or ''}")
            other = ONLY_CHECK_FLAGS if state == "check" else ONLY_ML_REFUSES
            if not _distinguishes(state):
                continue
            got, detail = probe(n, other)
            if got != "refused":
                what = (
                    "a pickle the safety check flags (call of collections.OrderedDict, SUSPICIOUS)"
                    if state == "check"
                    else "a global outside the ML allowlist (datetime.date)"
                )
                return f"{n} should be under the {state} protection but {what} through it was {got} {detail or ''}"
    return None


def run_history(history):
    reset_pickle_bindings()
    model, ctxs, spare = Model(), [], []
    try:
        for st in history:
            msg = step(model, ctxs, tuple(st), spare)
            if msg:
                return msg
        return None
    finally:
        reset_pickle_bindings()


def replay(case):
    msg = run_history([tuple(tuple(x) if isinstance(x, list) else x for x in s) for s in case["history"]])
    return Failure(case, f"after {len(case['history'])} steps: {msg}") if msg else None


def _machine(res, holder):
    from hypothesis import strategies as st
    from hypothesis.stateful import RuleBasedStateMachine, precondition, rule

    adds = st.lists(st.sampled_from(["fractions.Fraction", "collections.Counter"]), max_size=2, unique=True).map(tuple)

    class Life(RuleBasedStateMachine):
        def __init__(self):
            super().__init__()
            reset_pickle_bindings()
            self.model = Model()
            self.ctxs = []
            self.spare = []
            self.history = []
            self.feat = set()
            self.next_threaded = False

        def _do(self, stp):
            if self.next_threaded and stp[0] not in ("probe", "create", "create_lenient"):
                stp = (stp[0] + "@t",) + tuple(stp[1:])
                self.next_threaded = False
                self.feat.add("other-thread")
            self.history.append(stp)
            msg = step(self.model, self.ctxs, stp, self.spare)
            if msg:
                case = {"history": [[list(x) if isinstance(x, tuple) else x for x in s] for s in self.history]}
                holder["f"] = Failure(case, f"after {len(self.history)} steps: {msg}")
                holder.setdefault("first", holder["f"])
                raise Found(msg)

        @rule()
        def arm(self):
            if self.model.b["pickle.loads"] == "ml":
                self.feat.add("two-families")
            if self.ctxs:
                self.feat.add("arm-inside-context")
            self._do(("arm",))

        @precondition(lambda self: not self.ctxs)
        @rule(a=adds)
        def activate(self, a):
            if self.model.b["pickle.load"] == "check":
                self.feat.add("two-families")
            self._do(("activate", a))

        @precondition(lambda self: not self.ctxs)
        @rule()
        def remove(self):
            self._do(("remove",))

        @precondition(lambda self: len(self.ctxs) < 3)
        @rule()
        def enter(self):
            if self.ctxs or self.model.b["pickle.load"] != "orig":
                self.feat.add("nested")
            self._do(("enter",))

        @precondition(lambda self: len(self.spare) < 2)
        @rule()
        def create(self):
            self._do(("create",))

        @precondition(lambda self: len(self.spare) < 2)
        @rule()
        def create_lenient(self):
            self._do(("create_lenient",))

        @precondition(lambda self: len(self.ctxs) < 3)
        @rule()
        def enter_lenient(self):
            self.feat.add("lenient-manager")
            self._do(("enter_lenient",))

        @precondition(lambda self: self.spare and len(self.ctxs) < 3)
        @rule()
        def enter_spare(self):
            self.feat.add("deferred-entry")
            self._do(("enter_spare",))

        @precondition(lambda self: self.ctxs and len(self.ctxs) < 3)
        @rule()
        def reenter(self):
            self.feat.add("re-entered")
            self._do(("reenter",))

        @precondition(lambda self: self.ctxs)
        @rule()
        def leave(self):
            self._do(("leave",))

        @precondition(lambda self: self.ctxs)
        @rule()
        def leave_exc(self):
            self.feat.add("leave-by-exception")
            self._do(("leave_exc",))

        @precondition(lambda self: not self.next_threaded)
        @rule()
        def hand_over(self):
            # the next lifecycle operation runs on a worker thread (joined at once)
            self.next_threaded = True

        @rule(n=st.sampled_from(BINDINGS))
        def probe_(self, n):
            self._do(("probe", n))

        def teardown(self):
            res.note(
                repr(self.history),
                bool(self.feat),
                klass=sorted(self.feat) or ["plain"],
                sample={"history": [list(map(str, s)) for s in self.history]},
            )
            reset_pickle_bindings()

    return Life


def shards(tier):
    per = 400 if tier == "quick" else 24000
    return [{"kind": "machine", "n": per, "steps": 25, "idx": i} for i in range(16)]


def run_shard(spec, seed):
    import fickling  # noqa: F401
    from vlib.runner import run_machine

    res = ShardResult()
    holder = {}
    try:
        run_machine(_machine(res, holder), holder, res, seed, spec["n"], spec["steps"])
    finally:
        reset_pickle_bindings()
    return res

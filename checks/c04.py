"""C04  Detection floor: dangerous imports and calls are never rated LIKELY_SAFE."""
import itertools
from vlib import asm, cells, vocab
from vlib.refvm import run_ref
from vlib.runner import Failure, ShardResult, hypothesis_search

ID = "C04"
LEVEL = "exploration"
RULE = (
    "product cells: labelled vocabulary entry (builtins / dangerous stdlib + submodules / "
    "non-stdlib / benign stdlib) x resolving opcode (GLOBAL, STACK_GLOBAL with 3 string "
    "encodings, STACK_GLOBAL with operands from the memo, INST) x calling opcode (none, REDUCE "
    "with TUPLE1 / MARK..TUPLE / EMPTY_TUPLE, OBJ, NEWOBJ, NEWOBJ_EX, INST) x callee shape "
    "(global, result of another call, getattr(...) result) x disposal of the value (result, POP, "
    "POP_MARK, left below, BUILD target, BUILD state, memo PUT-POP-GET, DUP+TUPLE2, element of "
    "list/dict/tuple, argument of a benign call) x framing (bare, PROTO 2, PROTO 4 + FRAME, "
    "benign data before / around); exhaustive in the thorough tier, Hypothesis-sampled in quick; "
    "plus typed-assembler programs over the vocabulary. Oracle: floor = max over the REFERENCE "
    "VM's event log of {import from non-stdlib -> 3, from a dangerous module or submodule -> 4, "
    "call of builtins eval/exec/compile/open -> 5, call of any other builtin / non-stdlib global / "
    "non-global callee (except __setstate__) -> 3} by hand labels; verdict rank (own table) must "
    "be >= floor. Non-trivial = floor > 0 and the cell is not the plain GLOBAL+REDUCE+result+bare "
    "form; distinct = distinct byte strings."
    ' Also: Python-2 module names with floors computed from the module the reference VM'
    ' effectively resolves; every program is additionally rated after transplanting its opcodes by'
    ' slice assignment into an object already analysed as harmless; an exhaustive family of calls'
    ' whose argument is extreme (260-300 levels of nesting, 5000 digits, 100 kB) with floors known'
    ' by construction.'
)
ASSUMPTIONS = [
    "labels are hand-written in vlib/vocab.py from the property text, independent of "
    "stdlib_list and of fickling's tables; `__main__` is deliberately not in the vocabulary",
    "programs on which the analysis raises or which fickling refuses belong to C19 / are "
    "fail-closed, and are counted, not judged",
    "for programs in which two globals share an attribute name only the import clauses of the "
    "floor are asserted (the call clauses fall under the open finding KF-C03-1)",
    "persistent_load calls carry no floor (not a callee computed by the pickle)",
]

RANK = {"LIKELY_SAFE": 0, "POSSIBLY_UNSAFE": 1, "SUSPICIOUS": 2, "LIKELY_UNSAFE": 3,
        "LIKELY_OVERTLY_MALICIOUS": 4, "OVERTLY_MALICIOUS": 5}  # fmt: skip


def floor_of(log):
    floor = 0
    why = None
    for ev in log.events:
        f = 0
        if ev[0] == "import":
            cat = vocab.category(ev[1])
            if cat == "nonstd":
                f = 3
            elif cat == "dangerous":
                f = 4
        elif ev[0] == "call":
            callee = ev[1]
            if callee[0] == "glob":
                if callee[1] == "UNPICKLER":
                    f = 0
                else:
                    cat = vocab.category(callee[1])
                    if (callee[1], callee[2]) in vocab.EXEC_ALIASES:
                        f = 5  # the very same function object as the builtin
                    elif cat == "builtins":
                        f = 5 if callee[2] in vocab.EXEC_BUILTINS else 3
                    elif cat == "nonstd":
                        f = 3
            elif callee[0] == "attr" and callee[2] == "__setstate__":
                f = 0
            elif callee[0] == "attr" and callee[1][:2] == ("glob", "UNPICKLER"):
                f = 0
            else:
                f = 3  # computed callee
        if f > floor:
            floor, why = f, ev
    return floor, why


def import_floor_of(log):
    """floor from import events only (used for programs with attribute-name collisions, where
    the call clauses fall under the open finding KF-C03-1 but the import clauses do not)"""
    floor, why = 0, None
    for ev in log.events:
        if ev[0] != "import":
            continue
        cat = vocab.category(ev[1])
        f = 3 if cat == "nonstd" else 4 if cat == "dangerous" else 0
        if f > floor:
            floor, why = f, ev
    return floor, why


def judge(data, imports_only=False):
    """(Failure|None, klass, floor)"""
    from fickling.analysis import check_safety
    from fickling.fickle import Pickled

    ref = run_ref(data, fix_imports=True)
    if not ref.ok:
        return None, "ref-reject", 0
    try:
        floor, why = import_floor_of(ref.log) if imports_only else floor_of(ref.log)
    except KeyError:
        return None, "unlabelled-module", 0
    return _rate(data, floor, why)


_TRAILERS = {}


def _trailers():
    if not _TRAILERS:
        import io
        import pickle
        import zipfile

        buf = io.BytesIO()
        with zipfile.ZipFile(buf, "w") as z:
            z.writestr("archive/data.pkl", pickle.dumps({"weights": [1, 2, 3]}, 2))
            z.writestr("archive/version", b"3\n")
        _TRAILERS.update({"nothing": b"", "a harmless pickle": pickle.dumps([1, 2], 2), "a zip archive holding a harmless data.pkl": buf.getvalue(),
                          "NUL padding": b"\x00" * 64})
    return _TRAILERS


def _file_face(data):
    import os

    import fickling
    from vlib import env

    os.makedirs(env.SCRATCH, exist_ok=True)
    path = os.path.join(env.SCRATCH, f"c04-face.{os.getpid()}.pkl")
    try:
        for label, tail in _trailers().items():
            with open(path, "wb") as f:
                f.write(data + tail)
            try:
                safe = fickling.is_likely_safe(path)
            except Exception:  # noqa: BLE001 - refusing the file is not a low verdict
                continue
            if safe:
                return f"is_likely_safe() says True for the file holding it followed by {label}"
    finally:
        if os.path.exists(path):
            os.remove(path)
    return None


def _rate(data, floor, why):
    """fickling's side: the lowest verdict any public path gives must not be below the floor"""
    from fickling.analysis import check_safety
    from fickling.fickle import Pickled

    try:
        p = Pickled.load(data)
        sev = check_safety(p).severity
        rank = RANK[sev.name]
        # the floor holds every time the verdict is asked, also on an object whose derived
        # views are already cached
        p.has_call, p.has_import
        for _ in range(2):
            again = check_safety(p).severity
            if RANK[again.name] < rank:
                sev, rank = again, RANK[again.name]
        # the same opcodes transplanted, through slice assignment, into an object that has
        # already been analysed as something harmless
        q = Pickled.load(b"N.")
        check_safety(q)
        q[:] = list(Pickled.load(data))
        moved = check_safety(q).severity
        if RANK[moved.name] < rank:
            sev, rank = moved, RANK[moved.name]
    except Exception:  # noqa: BLE001
        return None, "analysis-raised-or-refused", floor
    if floor > 0 and len(data) % 3 == 0:
        # the file-level face of the same verdict, with benign bytes behind the pickle (nothing, a
        # harmless pickle, an innocent zip archive, NULs): never "likely safe" above the floor 0
        m = _file_face(data)
        if m:
            return Failure({"hex": data.hex()}, f"{data!r} would perform {why!r} but {m}"), f"floor{floor}", floor
    if rank < floor:
        names = {v: k for k, v in RANK.items()}
        return (
            Failure(
                {"hex": data.hex()},
                f"{data!r} is rated {sev.name} but the VM would perform {why!r}, whose floor is "
                f"{names[floor]}",
            ),
            f"floor{floor}",
            floor,
        )
    return None, f"floor{floor}", floor


def replay(case):
    if "cli_many" in case:
        return cli_many(case["cli_many"][0], bytes.fromhex(case["cli_many"][1]))
    if "floor" in case:
        return _rate(bytes.fromhex(case["hex"]), case["floor"], ("call", case.get("label")))[0]
    return judge(bytes.fromhex(case["hex"]), case.get("imports_only", False))[0]


def _plain(cell):
    return (
        cell["resolve"] == "GLOBAL"
        and cell["call"] in ("none", "reduce_t1")
        and cell["callee"] == "global"
        and cell["disposal"] == "result"
        and cell["framing"] == "bare"
    )


def extreme_programs():
    """a call whose argument is legal but extreme (deeply nested, thousands of digits): floors known
    by construction (the reference VM's own canonicalisation would hit the recursion limit)"""
    import struct

    def deep(d, kind):
        return (b"(" * d + b"l" * d) if kind == "list" else (b"N" + b"\x85" * d)

    big = (10**5000).to_bytes(2100, "little", signed=True)
    args = {"deep-list-260": deep(260, "list"), "deep-tuple-300": deep(300, "tuple"), "deep-list-150": deep(150, "list"),
            "int-5000-digits": b"\x8b" + struct.pack("<i", len(big)) + big,
            "str-100k": b"X" + struct.pack("<I", 100000) + b"a" * 100000}  # fmt: skip
    callees = [("builtins", n, 5) for n in vocab.EXEC_BUILTINS] + [("__builtin__", "eval", 5), ("builtins", "getattr", 3),
               ("os", "system", 4), ("foo.bar", "Baz", 3), ("subprocess", "Popen", 4)]  # fmt: skip
    for (m, n, floor), (an, arg) in itertools.product(callees, args.items()):
        for tail in (b".", b"0N."):
            yield f"{m}.{n}({an})", f"c{m}\n{n}\n".encode() + arg + b"\x85R" + tail, floor
            yield f"{m}.{n}(x, {an})", f"c{m}\n{n}\n".encode() + b"(K\x01" + arg + b"tR" + tail, floor


def shards(tier):
    out = [{"kind": "extreme"}, {"kind": "cli_many"}]
    if tier == "quick":
        out += [{"kind": "sample", "n": 1500, "idx": i} for i in range(16)]
    else:
        out += [{"kind": "cells", "part": i, "nparts": 32} for i in range(32)]
    per = 300 if tier == "quick" else 25000
    out += [{"kind": "random", "n": per, "idx": i} for i in range(12)]
    out += [{"kind": "collide", "n": per, "idx": i} for i in range(4)]
    return out


def _do_cell(res, cell):
    try:
        data = cells.build(cell)
    except cells.Skip as e:
        res.excluded[f"not-constructible:{e}"] += 1
        return None
    f, klass, floor = judge(data)
    res.note(
        data,
        floor > 0 and not _plain(cell),
        klass=[klass, "disposal:" + cell["disposal"], "call:" + cell["call"]],
        sample={"cell": cell, "hex": data.hex(), "floor": floor},
    )
    if f is not None:
        f.case["cell"] = cell
    return f


def cli_many(n, payload):
    """the command-line face of the floor: a file of n copies of a pickle whose floor is above
    LIKELY_SAFE, checked by a real `python -m fickling --check-safety` process, never exits 0"""
    import os
    import subprocess
    import sys

    from vlib import env
    from vlib.sandbox import Scratch

    with Scratch("c04") as scratch:
        path = os.path.join(scratch.path, "many.pkl")
        with open(path, "wb") as f:
            f.write(payload * n)
        child_env = dict(os.environ, PYTHONPATH=os.pathsep.join([env.REPO] + [p for p in sys.path if p]))
        pr = subprocess.run([sys.executable, "-m", "fickling", "--check-safety", "--json-output",
                             os.path.join(scratch.path, "r.json"), path], stdout=subprocess.DEVNULL,
                            stderr=subprocess.DEVNULL, env=child_env, cwd=scratch.path, timeout=900)  # fmt: skip
    if pr.returncode == 0:
        return Failure({"cli_many": [n, payload.hex()]},
                       f"`python -m fickling --check-safety` exits 0 (likely safe) on a file of {n} copies of {payload!r}")
    return None


def run_shard(spec, seed):
    res = ShardResult()
    if spec["kind"] == "cli_many":
        for n in (1, 255, 256, 512):
            for payload in (b"cbuiltins\neval\n(S'1+1'\ntR.", b"cos\ngetpid\n)R."):
                f = cli_many(n, payload)
                res.note((n, payload.hex()), n > 1, klass="cli-many", sample={"cli_many": [n, payload.hex()]})
                if f is not None:
                    res.failures.append(f)
                    return res
        return res
    if spec["kind"] == "extreme":
        for label, data, floor in extreme_programs():
            f, klass, _ = _rate(data, floor, ("call", label))
            res.note(None, True, klass=[klass, "extreme-argument"], sample={"call": label, "bytes": len(data)})
            if f is not None:
                f.case = {"hex": data.hex(), "floor": floor, "label": label}
                res.failures.append(f)
                break
        res.exhaustive = True
        return res
    ents = cells.entries_c04()
    if spec["kind"] == "cells":
        n = 0
        for i, cell in enumerate(cells.all_cells(ents)):
            if i % spec["nparts"] != spec["part"]:
                continue
            n += 1
            f = _do_cell(res, cell)
            if f is not None:
                res.failures.append(f)
                break
        res.exhaustive = True
        res.extra["product_cells"] = n
    elif spec["kind"] == "sample":
        hypothesis_search(
            cells.cell_strategy(ents), lambda c: _do_cell(res, c), seed, spec["n"], res, batch=500
        )
    elif spec["kind"] == "collide":
        # same attribute name from different modules (stdlib first, dangerous / non-stdlib
        # later and vice versa): only the import clauses of the floor are asserted here
        names = ("join", "load", "system")
        mods = ("shlex", "os.path", "foo.bar", "collections", "subprocess", "torch", "posix", "numpy")
        prof = asm.full_profile(
            tuple((m, n) for n in names for m in mods), unique_attr_names=False
        )
        prof.weights["GLOBAL"] = 30

        def body(prog):
            f, klass, floor = judge(prog.data, imports_only=True)
            if f is not None:
                f.case["imports_only"] = True
            mods_used = {a[0] for op, a in prog.instrs if op in ("GLOBAL", "INST")}
            res.note(
                prog.data,
                floor > 0 and len(mods_used) >= 2,
                klass=[klass, "collide"],
                sample={"collide": prog.data.hex(), "floor": floor},
            )
            return f

        hypothesis_search(asm.programs(prof, max_len=16), body, seed, spec["n"], res, batch=500)
    else:
        prof = asm.full_profile(vocab.ASM_GLOBS)

        def body(prog):
            f, klass, floor = judge(prog.data)
            res.note(
                prog.data,
                floor > 0 and prog.ncalls > 0,
                klass=klass,
                sample={"random": prog.data.hex(), "floor": floor},
            )
            res.excluded.update(prog.excluded)
            return f

        hypothesis_search(asm.programs(prof, max_len=24), body, seed, spec["n"], res, batch=500)
    return res

"""C07  Safe ML environment mediates every global, including in nested unpicklings."""
import io
import itertools
import os
import struct
import sys

from vlib import env
from vlib.runner import Failure, ShardResult, hypothesis_search
from vlib.sandbox import Monitor, reset_pickle_bindings

ID = "C07"
LEVEL = "exploration"
RULE = (
    "pickles whose leaf resolves-and-calls a drawn set of globals (allow-listed constructors that "
    "resolve here: collections.OrderedDict/defaultdict, argparse.Namespace, torch.Size, "
    "_codecs.encode, _io.BytesIO, numpy.dtype; user-addable names; foreign names: verif_sink.sink, "
    "os.getpid, builtins.eval, collections.Counter, torch.load (resolved only), protocol-4 "
    "qualified names; or a benign zip / legacy torch container, whose own globals must all be "
    "allow-listed) wrapped 0..3 levels "
    "deep as a byte-string argument of a loader callable (pickle.loads, _pickle.loads, pickle.load "
    "on _io.BytesIO, torch.storage._load_from_bytes) x entry point (pickle.load, pickle.loads, "
    "_pickle.load, _pickle.loads) x explicit additions (none, loader callables, extra names). "
    "Oracle: audit monitor - every pickle.find_class (module, name) event raised between entry and "
    "exit, by any unpickler instance, is in the built-in allowlist snapshot + the additions; if "
    "any global anywhere in the nest is outside that set the call raises UnsafeFileError and the "
    "sink log is empty; otherwise the outcome (value or exception type) equals that of the same "
    "call with the hooks removed. Non-trivial = nesting depth >= 1 or non-empty additions; "
    "Each case is also run with the safety check layered on top of the active environment "
    "(always_check_safety() / a check_safety() with-block) and with the file entry points given a "
    "BytesIO, a file opened by path or a file opened from a descriptor (.name is an int); "
    "distinct = distinct (bytes, entry point, additions, layer, stream)."
    ' Leaves may resolve their globals with INST, use Python-2 spellings at protocol 4, or be'
    ' preceded by a direct FicklingMLUnpickler with additions of its own; all six layers (none /'
    ' check armed / with-block open / with-block left, GLOBAL or INST) are run per case.'
)
ASSUMPTIONS = [
    "open known finding KF-C07-1: legacy / zip torch containers reached through "
    "torch.storage._load_from_bytes are unpickled by torch's own Unpickler subclass, which the "
    "hooks do not replace; inner containers of those two formats are excluded by construction and "
    "the finding is replayed",
    "the built-in allowlist is fickling.ml.ML_ALLOWLIST as of import (the property's 'built-in "
    "allowlist'); additions are those passed to the activation under test",
]

# leaf globals: (module, name, args-builder kind)
ALLOWED_LEAVES = (
    ("collections", "OrderedDict", "empty"),
    ("collections", "defaultdict", "empty"),
    ("argparse", "Namespace", "empty"),
    ("torch", "Size", "tuple12"),
    ("_codecs", "encode", "latin"),
    ("_io", "BytesIO", "bytes"),
    ("numpy", "dtype", "f4"),
)
ADDABLE_LEAVES = (
    ("collections", "Counter", "empty"),
    ("fractions", "Fraction", "empty"),
    ("verif_sink", "sink", "tag"),
)
FOREIGN_LEAVES = (
    ("verif_sink", "sink", "tag"),
    ("os", "getpid", "empty"),
    ("builtins", "eval", "onep1"),
    ("collections", "Counter", "empty"),
    ("torch", "load", None),  # resolved only, never called
    ("torch.hub", "load", None),
    # standard-library globals that are only referenced: the static check has nothing against
    # them, the allowlist does
    ("datetime", "date", None), ("colorsys", "rgb_to_hsv", None), ("decimal", "Decimal", None),
    # Python-2 spellings whose Python-3 counterpart is allow-listed: from protocol 3 on nothing is
    # renamed, so these are what they look like - modules outside the allowlist
    # importable but not yet imported (a dotted one needs its parent package imported to be located)
    ("verif_canary", "fire", None), ("verif_canary_pkg.sub", "thing", None),
    ("UserDict", "OrderedDict", "py2"), ("copy_reg", "_reconstructor", "py2"), ("cPickle", "loads", "py2"),
    ("__builtin__", "set", "py2"),
    # protocol-4 qualified names: only the exact dotted name may be looked up in the allowlist
    ("collections", "OrderedDict.fromkeys", None),
    ("argparse", "Namespace.__init__", None),
    ("torch", "Size.__new__", None),
    ("collections", "OrderedDict.__init__.__globals__", None),
)
LOADERS = ("pickle.loads", "_pickle.loads", "pickle.load+BytesIO", "torch._load_from_bytes")
LOADER_GLOBALS = {
    "pickle.loads": [("pickle", "loads")],
    "_pickle.loads": [("_pickle", "loads")],
    "pickle.load+BytesIO": [("pickle", "load"), ("_io", "BytesIO")],
    "torch._load_from_bytes": [("torch.storage", "_load_from_bytes")],
}
ENTRY = ("pickle.load", "pickle.loads", "_pickle.load", "_pickle.loads")


def _bytes_op(b):
    return b"B" + struct.pack("<I", len(b)) + b


def _args(kind):
    if kind == "empty":
        return b")"
    if kind == "tuple12":
        return b"(K\x01K\x02t\x85"
    if kind == "latin":
        return b"(X\x01\x00\x00\x00aX\x06\x00\x00\x00latin1t"
    if kind == "bytes":
        return b"C\x02hi\x85"
    if kind == "f4":
        return b"X\x02\x00\x00\x00f4\x85"
    if kind == "tag":
        return b"X\x03\x00\x00\x00c07\x85"
    if kind == "onep1":
        return b"X\x03\x00\x00\x001+1\x85"
    raise ValueError(kind)


_INST_ITEMS = {"empty": b"", "tuple12": b"(K\x01K\x02t", "latin": b"X\x01\x00\x00\x00aX\x06\x00\x00\x00latin1",
               "bytes": b"C\x02hi", "f4": b"X\x02\x00\x00\x00f4", "tag": b"X\x03\x00\x00\x00s07",
               "onep1": b"X\x03\x00\x00\x001+1"}  # fmt: skip


def leaf_pickle(globs, inst=False):
    # qualified (dotted) names are only resolvable at protocol >= 4
    out = (b"\x80\x04" if any("." in n or k == "py2" for _m, n, k in globs) else b"") + b"("
    for m, n, kind in globs:
        if kind == "py2":
            kind = None  # resolved only
        if inst and kind is not None and "." not in n:
            # the protocol-0 way of resolving and calling a global: no GLOBAL / STACK_GLOBAL opcode
            out += b"(" + _INST_ITEMS[kind] + f"i{m}\n{n}\n".encode()
            continue
        out += f"c{m}\n{n}\n".encode()
        if kind is not None:
            out += _args(kind) + b"R"
    return out + b"l."


def wrap(inner, loader):
    if loader == "pickle.loads":
        return b"cpickle\nloads\n" + _bytes_op(inner) + b"\x85R."
    if loader == "_pickle.loads":
        return b"c_pickle\nloads\n" + _bytes_op(inner) + b"\x85R."
    if loader == "pickle.load+BytesIO":
        return b"cpickle\nload\nc_io\nBytesIO\n" + _bytes_op(inner) + b"\x85R\x85R."
    if loader == "torch._load_from_bytes":
        return b"ctorch.storage\n_load_from_bytes\n" + _bytes_op(inner) + b"\x85R."
    raise ValueError(loader)


def torch_container(kind, seed):
    """benign torch container (zip or legacy) and the globals its pickles name"""
    import pickletools
    import zipfile

    import torch

    torch.manual_seed(seed)
    obj = {"w": torch.randn(2, 3), "b": torch.arange(4), "n": seed, "l": [torch.zeros(1, dtype=torch.float64)]}
    buf = io.BytesIO()
    torch.save(obj, buf, _use_new_zipfile_serialization=(kind == "torch_zip"))
    data = buf.getvalue()
    names = set()
    if kind == "torch_zip":
        with zipfile.ZipFile(io.BytesIO(data)) as z:
            pkls = [z.read(n) for n in z.namelist() if n.endswith(".pkl")]
    else:
        pkls = [data]
    for blob in pkls:
        pos = 0
        while pos < len(blob):
            try:
                ops = list(pickletools.genops(blob[pos:]))
            except Exception:  # noqa: BLE001 - raw storage bytes follow the legacy pickles
                break
            strs = []
            for op, arg, _ in ops:
                if op.name == "GLOBAL":
                    names.add(tuple(arg.split(" ", 1)))
                elif op.name in ("SHORT_BINUNICODE", "BINUNICODE", "UNICODE"):
                    strs.append(arg)
                elif op.name == "STACK_GLOBAL" and len(strs) >= 2:
                    names.add((strs[-2], strs[-1]))
            pos += ops[-1][2] + 1
    return data, names


def build(leaf_globs, loaders, inst=False):
    if leaf_globs and leaf_globs[0][0] in ("torch_zip", "torch_legacy"):
        inner, names = torch_container(leaf_globs[0][0], leaf_globs[0][1])
        data = wrap(inner, "torch._load_from_bytes")
        names = set(names) | set(LOADER_GLOBALS["torch._load_from_bytes"])
        for ld in reversed(loaders):
            data = wrap(data, ld)
            names.update(LOADER_GLOBALS[ld])
        return data, names
    data = leaf_pickle(leaf_globs, inst)
    for ld in reversed(loaders):
        data = wrap(data, ld)
    names = {(m, n) for m, n, _ in leaf_globs}
    for ld in loaders:
        names.update(LOADER_GLOBALS[ld])
    return data, names


_BASE = {}


def base_allowlist():
    if "s" not in _BASE:
        import fickling.ml as ml

        _BASE["s"] = {(m, n) for m, names in ml.ML_ALLOWLIST.items() for n in names}
    return _BASE["s"]


# fickling's other guard layered on top of the environment ("context_left": a with-block entered and
# left again before the load; the environment is still the active one); "+inst": the leaf resolves
# its globals with INST instead of GLOBAL
CANARY_ROOTS = ("verif_canary", "verif_canary_pkg")


def _forget_canaries():
    for m in [m for m in sys.modules if m.split(".")[0] in CANARY_ROOTS]:
        del sys.modules[m]


LAYERS = ("none", "arm", "context", "context_left", "none+inst", "context_left+inst")
STREAMS = ("bytesio", "named_file", "fd_file")  # what the file entry points are handed


def _open_stream(data, stream):
    if stream == "bytesio":
        return io.BytesIO(data)
    os.makedirs(env.SCRATCH, exist_ok=True)
    path = os.path.join(env.SCRATCH, f"c07-{os.getpid()}.bin")
    with open(path, "wb") as f:
        f.write(data)
    if stream == "named_file":
        return open(path, "rb")
    return open(os.open(path, os.O_RDONLY), "rb")  # .name is the descriptor, an int


def call_entry(entry, data, stream="bytesio"):
    import _pickle
    import pickle

    if entry == "pickle.loads":
        return pickle.loads(data)
    if entry == "_pickle.loads":
        return _pickle.loads(data)
    with _open_stream(data, stream) as fh:
        if entry == "pickle.load":
            return pickle.load(fh)
        return _pickle.load(fh)


def outcome_of(entry, data, stream="bytesio"):
    import verif_sink

    verif_sink.reset()
    try:
        v = call_entry(entry, data, stream)
        out = ("value", _norm(v))
    except RecursionError as e:
        out = ("raised", type(e).__name__)
    except Exception as e:  # noqa: BLE001
        out = ("raised", type(e).__name__)
    log = list(verif_sink.LOG)
    verif_sink.reset()
    return out, log


def _norm(v):
    """comparable rendering of returned values (BytesIO objects etc. have no equality)"""
    if isinstance(v, (list, tuple)):
        return (type(v).__name__, tuple(_norm(x) for x in v))
    if isinstance(v, io.BytesIO):
        return ("BytesIO", v.getvalue())
    if type(v).__name__ == "Tensor":
        return ("Tensor", str(v.dtype), tuple(v.shape), repr(v.tolist()))
    if isinstance(v, dict):
        return (type(v).__name__, tuple((repr(k), _norm(x)) for k, x in v.items()))
    return (type(v).__name__, repr(v))


def check(leaf_globs, loaders, entry, additions, layer="none", stream="bytesio"):
    import fickling
    import fickling.hook as hook

    reset_pickle_bindings()
    layer, _, enc = layer.partition("+")
    data, names = build(leaf_globs, loaders, inst=(enc == "inst"))
    case = {"leaf": [list(g) for g in leaf_globs], "loaders": list(loaders), "entry": entry,
            "additions": list(additions), "layer": layer + (_ + enc), "stream": stream}  # fmt: skip
    allowed = set(base_allowlist()) | {tuple(a.rsplit(".", 1)) for a in additions}
    foreign = sorted(names - allowed)
    stock = None
    if not foreign:
        stock = outcome_of(entry, data)  # hooks removed: the stock behaviour
    mon = Monitor.get()
    if len(data) % 2:
        # earlier in the process somebody used the unpickler class directly, with additions of
        # their own; that is over by the time the environment under test is activated
        from fickling.ml import FicklingMLUnpickler

        for blob in (b"N.", b"cos\ngetpid\n."):
            try:
                FicklingMLUnpickler(io.BytesIO(blob), also_allow=["os.getpid", "verif_sink.sink", "pickle.loads",
                                                                   "collections.Counter"]).load()  # fmt: skip
            except Exception:  # noqa: BLE001
                pass
    if len(data) % 3 == 0:
        # an earlier activation (other additions) that was superseded, never removed
        hook.activate_safe_ml_environment(also_allow=["os.getpid", "verif_sink.sink", "collections.Counter",
                                                       "builtins.eval", "verif_canary.fire"])  # fmt: skip
    hook.activate_safe_ml_environment(also_allow=list(additions) or None)
    ctx = None
    try:
        # the environment stays active (nobody deactivated it) when the safety check is armed on
        # top of it, globally or for a with-block
        if layer == "arm":
            fickling.always_check_safety()
        elif layer == "context":
            ctx = fickling.check_safety()
            ctx.__enter__()
        elif layer == "context_left":
            with fickling.check_safety():
                pass
        _forget_canaries()
        with mon.watch() as events:
            got, log = outcome_of(entry, data, stream)
        resolved = [(e[1], e[2]) for e in events if e[0] == "pickle.find_class"]
        imported = sorted({e[1] for e in events if e[0] == "import" and e[1].split(".")[0] in CANARY_ROOTS}
                          | {m for m in sys.modules if m.split(".")[0] in CANARY_ROOTS})
        _forget_canaries()
    finally:
        if ctx is not None:
            ctx.__exit__(None, None, None)
        hook.remove_hook()
        reset_pickle_bindings()

    def fail(msg):
        extra = ("" if layer == "none" else f", safety check layered on top ({layer})") + (
            "" if stream == "bytesio" or entry.endswith("loads") else f", stream={stream}")
        return Failure(case, f"{entry} of depth-{len(loaders)} payload via {list(loaders)} with additions {list(additions)}{extra}: {msg}")

    bad = [r for r in resolved if r not in allowed]
    if bad:
        return fail(f"resolved {bad} which are neither built-in allow-listed nor explicitly added")
    if foreign and imported and not any((m, n) in allowed for m, n in names if m.split(".")[0] in CANARY_ROOTS):
        return fail(f"a module outside the allowed set was imported ({imported}) although its global is refused")
    if foreign:
        if got != ("raised", "UnsafeFileError"):
            return fail(f"payload names {foreign} outside the allowed set but the load gave {got}")
        if log and ("verif_sink", "sink") not in allowed:
            return fail(f"blocked load still ran the sink: {log!r}")
        return None
    if layer in ("arm", "context") and got == ("raised", "UnsafeFileError") and not log:
        return None  # the layered safety check may object to a pickle the allowlist admits
    if got != stock[0] or log != stock[1]:
        return fail(f"all globals are allowed but the outcome {got} / sink {log!r} differs from the stock one {stock}")
    return None


def kf_c07_1(container):
    """the open finding: inner legacy / zip torch container through _load_from_bytes"""
    import torch
    import verif_sink

    import fickling.hook as hook

    class Evil:
        def __reduce__(self):
            return (verif_sink.sink, ("c07-nested",))

    buf = io.BytesIO()
    torch.save(Evil(), buf, _use_new_zipfile_serialization=(container == "zip"))
    data = wrap(buf.getvalue(), "torch._load_from_bytes")
    reset_pickle_bindings()
    hook.activate_safe_ml_environment()
    try:
        got, log = outcome_of("pickle.loads", data)
    finally:
        hook.remove_hook()
        reset_pickle_bindings()
    if log:
        return Failure(
            {"kf": "KF-C07-1", "container": container},
            f"inner {container} torch container reached through torch.storage._load_from_bytes is "
            f"unpickled outside the hooks: sink ran {log!r}, outcome {got}",
        )
    return None


def replay(case):
    if "fresh" in case:
        return fresh_check(*case["fresh"])
    if "ext" in case:
        import fickling  # noqa: F401

        base_allowlist()
        return ext_check(*case["ext"])
    import fickling  # noqa: F401

    base_allowlist()
    if case.get("kf") == "KF-C07-1":
        return kf_c07_1(case["container"])
    return check([tuple(g) for g in case["leaf"]], case["loaders"], case["entry"], case["additions"],
                 case.get("layer", "none"), case.get("stream", "bytesio"))


def _case_strategy():
    from hypothesis import strategies as st

    leaf = st.lists(
        st.one_of(
            st.sampled_from(ALLOWED_LEAVES), st.sampled_from(ALLOWED_LEAVES),
            st.sampled_from(ADDABLE_LEAVES), st.sampled_from(FOREIGN_LEAVES),
        ),
        min_size=1, max_size=4,
    )  # fmt: skip
    # benign torch containers (allowed side only; foreign globals inside them are KF-C07-1)
    container = st.tuples(st.sampled_from(["torch_zip", "torch_legacy"]), st.integers(0, 5), st.none()).map(
        lambda t: [t]
    )
    leaf = st.one_of(leaf, leaf, leaf, leaf, container)
    loaders = st.lists(st.sampled_from(LOADERS), max_size=3)
    adds = st.lists(
        st.sampled_from(["pickle.loads", "_pickle.loads", "pickle.load", "collections.Counter",
                         "fractions.Fraction", "verif_sink.sink", "pickle.loads", "_pickle.loads"]),
        max_size=4, unique=True,
    )  # fmt: skip
    return st.tuples(leaf, loaders, st.booleans(), adds, st.just(None), st.sampled_from(STREAMS))


FRESH_PRELUDES = ("nothing", "pickle.load wrapped", "pickle.loads wrapped", "pickle imported as alias first")


def fresh_check(prelude, entry):
    """the four entry points are mediated whatever the application did to the pickle module before
    fickling was imported (a tracing wrapper around pickle.load, ...): fresh interpreter per case"""
    import json
    import os
    import subprocess
    import sys

    from vlib import env

    child = os.path.join(os.path.dirname(os.path.abspath(__file__)), "c07_fresh.py")
    pr = subprocess.run([sys.executable, child, env.REPO, env.HELPERS, prelude, entry], capture_output=True, text=True, timeout=900)
    if pr.returncode != 0 or not pr.stdout.strip():
        raise RuntimeError(f"fresh child failed ({pr.returncode}): {pr.stderr[-400:]}")
    doc = json.loads(pr.stdout.strip().splitlines()[-1])
    if doc["ran"] or doc["outcome"] == "returned":
        return Failure({"fresh": [prelude, entry]},
                       f"fresh process, {prelude} before `import fickling`, safe ML environment activated: a pickle calling a "
                       f"non-allow-listed global through {entry} {doc['outcome']} (called: {doc['ran']})")
    return None


def ext_check(entry, nested):
    """a non-allow-listed global reached through the extension registry (copyreg.add_extension +
    EXT1), after the stock unpickler resolved that code once: refused like the name, not called"""
    import copyreg
    import io
    import pickle

    import _pickle

    import fickling.hook as hook
    import verif_sink
    from fickling.exception import UnsafeFileError

    from vlib.sandbox import reset_pickle_bindings

    reset_pickle_bindings()
    copyreg.add_extension("verif_sink", "sink", 0xD1)
    try:
        pickle.loads(b"\x82\xd1.")  # the application itself used the code before
        hook.activate_safe_ml_environment(also_allow=["pickle.loads"] if nested else None)
        inner = b"\x82\xd1(S'through the extension registry'\ntR."
        data = inner
        if nested:
            data = b"cpickle\nloads\n(B" + len(inner).to_bytes(4, "little") + inner + b"tR."
        verif_sink.reset()
        try:
            {"pickle.load": lambda: pickle.load(io.BytesIO(data)), "pickle.loads": lambda: pickle.loads(data),
             "_pickle.load": lambda: _pickle.load(io.BytesIO(data)), "_pickle.loads": lambda: _pickle.loads(data)}[entry]()
            outcome = "returned"
        except UnsafeFileError:
            outcome = "refused"
        except Exception as e:  # noqa: BLE001
            outcome = "raised " + type(e).__name__
        ran = list(verif_sink.LOG)
        verif_sink.reset()
    finally:
        reset_pickle_bindings()
        copyreg.remove_extension("verif_sink", "sink", 0xD1)
        copyreg._extension_cache.clear()
    if ran or outcome != "refused":
        return Failure({"ext": [entry, nested]},
                       f"{'nested ' if nested else ''}pickle naming verif_sink.sink through an extension code (resolved once by the "
                       f"stock unpickler before) via {entry} under the safe ML environment: {outcome}, called: {ran}")
    return None


def shards(tier):
    per = 40 if tier == "quick" else 8000
    return [{"kind": "nest", "n": per, "idx": i} for i in range(16)] + [{"kind": "fresh", "prelude": p} for p in FRESH_PRELUDES] + [{"kind": "ext"}]


def run_shard(spec, seed):
    if spec["kind"] == "ext":
        import fickling  # noqa: F401

        base_allowlist()
        res = ShardResult()
        for entry in ENTRY:
            for nested in (False, True):
                f = ext_check(entry, nested)
                res.note((entry, nested), True, klass=["extension-registry", "entry:" + entry], sample={"ext": [entry, nested]})
                if f is not None:
                    res.failures.append(f)
                    return res
        return res
    if spec["kind"] == "fresh":
        res = ShardResult()
        for entry in ENTRY:
            f = fresh_check(spec["prelude"], entry)
            res.note((spec["prelude"], entry), spec["prelude"] != "nothing", klass=["fresh-process", "entry:" + entry],
                     sample={"fresh": [spec["prelude"], entry]})
            if f is not None:
                res.failures.append(f)
                break
        return res
    import torch  # noqa: F401

    import fickling  # noqa: F401

    torch.set_num_threads(1)
    base_allowlist()
    res = ShardResult()

    def body(case):
        leaf, loaders, permit, adds, layer, stream = case
        adds = list(adds)
        if permit:
            # make loader nests likely to be permitted: add what the loaders need
            for ld in loaders:
                for m, n in LOADER_GLOBALS[ld]:
                    if (m, n) not in base_allowlist() and f"{m}.{n}" not in adds:
                        adds.append(f"{m}.{n}")
        for entry, layer in itertools.product(ENTRY, LAYERS):
            f = check(leaf, loaders, entry, adds, layer, stream)
            allowed = set(base_allowlist()) | {tuple(a.rsplit(".", 1)) for a in adds}
            _, names = build(leaf, loaders)
            res.note(
                repr((leaf, loaders, entry, adds, layer, stream)),
                len(loaders) >= 1 or bool(adds),
                klass=[f"depth{len(loaders)}", "foreign" if names - allowed else "all-allowed", entry,
                       f"layer-{layer}", f"stream-{stream}"],
                sample={"leaf": [f"{m}.{n}" for m, n, _ in leaf], "loaders": list(loaders), "entry": entry,
                        "additions": adds},
            )
            if f is not None:
                return f
        return None

    try:
        hypothesis_search(_case_strategy(), body, seed, spec["n"], res, batch=300)
    finally:
        reset_pickle_bindings()
        try:
            os.remove(os.path.join(env.SCRATCH, f"c07-{os.getpid()}.bin"))
        except OSError:
            pass
    return res

"""C08  Injection adds exactly one call and preserves the original pickle's behaviour."""
import pickle
import pickletools

from vlib import asm, values
from vlib.refvm import run_ref
from vlib.runner import Failure, ShardResult, hypothesis_search

ID = "C08"
LEVEL = "exploration"
RULE = (
    "base pickles (generated plain values, helper-class instances, effectful objects whose "
    "reduction calls verif_sink.sink(tag_i), shared references, lists with > 255 memo entries; "
    "protocols 0-5, framed and unframed; typed-assembler programs over harmless globals with "
    "sparse memo keys incl. 1, 2 and 321987, constrained to leave exactly the result on the "
    "stack) x every injection mode (insert_python run-first/last x keep/replace; "
    "insert_python_eval and insert_python_exec in the same four flag combinations; append_python "
    "with/without pop_result; the same two helpers injecting an argument-less callable of a benign "
    "standard-library module (platform.python_implementation); "
    "insert_function_call_on_unpickled_object plain/precompiled "
    "with/without constant_args; insert_magic_int at index -1 / 0 / middle) x loader (accelerated "
    "unpickler; pure-Python unpickler for unframed bases). Oracle: sink log = the base's own "
    "effects in their original order + the payload exactly once with exactly the given "
    "arguments; return value == base value (keep modes) / payload's return (replace modes) / "
    "f(base) (function mode); reference VM on the rewritten bytes ends with an empty stack; the "
    "base's find_class sequence is a subsequence of the rewritten one; exactly one STOP, last; "
    "check_safety(rewritten) != LIKELY_SAFE for call-injecting modes. The injected function carries an annotation that is an expression "
    "and returns its evaluated value (the precompiled form must be the function the text defines); dict arguments "
    "are compared with their insertion order. Non-trivial = base has its "
    "own globals/effects, > 255 memo entries, protocol <= 1, or sparse memo keys; distinct = "
    "distinct (base bytes, mode, loader)."
    ' Also: qualified-name callables on protocol >= 4 bases, container and > 255-byte bytes'
    ' arguments, and every other mode building its Pickled from one caller-owned opcode list'
    ' reused across modes.'
)
ASSUMPTIONS = [
    "bases are restricted to pickles that leave exactly one object on the VM stack at STOP and "
    "that the stock unpickler loads",
    "open known findings excluded by construction and replayed: KF-C08-1 (function-call helper "
    "under the pure-Python unpickler), KF-C08-2 (append_python(pop_result=False) leaves the "
    "original object on the stack: the stack-empty clause is not asserted for that mode)",
    "the marker-integer mode injects no call: the 'never LIKELY_SAFE' clause is not asserted for it",
]

PAYLOAD_TAG = "PAYLOAD"
EVAL_SRC = "__import__('verif_sink').sink('PAYLOAD')"
EXEC_SRC = "import verif_sink\nverif_sink.sink('PAYLOAD')"
FN_SRC = (
    # the annotation is an expression: the function that runs must be the one this text defines
    # in a plain module (annotations evaluated), whether it travels as text or precompiled
    "def verif_fn(obj, *extra, _w: 'wrap' + 'ped' = None):\n"
    "    import verif_sink\n"
    "    verif_sink.sink('PAYLOAD', *extra)\n"
    "    return (verif_fn.__annotations__['_w'], obj)"
)

MODES = []
for rf in (True, False):
    for uo in (True, False):
        MODES.append(("insert_python", {"run_first": rf, "use_output_as_unpickle_result": uo}))
        MODES.append(("insert_python_eval", {"run_first": rf, "use_output_as_unpickle_result": uo}))
        MODES.append(("insert_python_exec", {"run_first": rf, "use_output_as_unpickle_result": uo}))
        MODES.append(("insert_python_stdlib", {"run_first": rf, "use_output_as_unpickle_result": uo}))
        MODES.append(("insert_python_qualified", {"run_first": rf, "use_output_as_unpickle_result": uo}))
for pr in (True, False):
    MODES.append(("append_python", {"pop_result": pr}))
    MODES.append(("append_python_stdlib", {"pop_result": pr}))
    MODES.append(("append_python_qualified", {"pop_result": pr}))
for cc in (False, True):
    for ca in (None, [1, "a"], [[1, 2], {"k": "v"}], [b"w" * 300]):
        MODES.append(("function_call", {"compile_code": cc, "constant_args": ca}))
for idx in ("last", "first", "middle"):
    MODES.append(("magic_int", {"index": idx}))
LOADERS = ("c", "py")


ARG2 = [7]  # second payload argument; varied per injection by run_shard
ARG_SEQUENCE = (7, 8.0, "7", 7.0, 8, b"7", 10.0, 10, 11, 11.0, "8.0", 2**40, float(2**40), 12.0, 12,
                b"z" * 300, [1, "a"], {"k": 2}, b"y" * 255, [], [[1], {"n": [2]}], "\u00e9" * 200,
                # dicts are ordered: the callee must see the caller's insertion order
                {"zeta": 1, "alpha": 2}, {10: "x", 9: "y", "a": [{"b": 1, "a": 2}]},
                # other sequences / mappings / buffers: delivered as what they are, or refused
                bytearray(b"ab"), range(3), (1, "t"), __import__("collections").deque([1, 2]), [bytearray(b"n")],
                frozenset([1]), list(range(1000)),
                {i: i for i in range(1000)})
_ARG_CYCLE = [0]


def apply_mode(p, mode, kw):
    if mode == "insert_python":
        p.insert_python(PAYLOAD_TAG, ARG2[0], module="verif_sink", attr="sink", **kw)
    elif mode == "insert_python_eval":
        p.insert_python_eval(EVAL_SRC, **kw)
    elif mode == "insert_python_exec":
        p.insert_python_exec(EXEC_SRC, **kw)
    elif mode == "insert_python_stdlib":
        # a harmless callable from a benign standard-library module, no arguments
        p.insert_python(module="platform", attr="python_implementation", **kw)
    elif mode == "append_python_stdlib":
        p.append_python(module="platform", attr="python_implementation", **kw)
    elif mode == "insert_python_qualified":
        # a callable reached through a qualified name (method of a class), as protocol >= 4 allows
        p.insert_python("verif", module="builtins", attr="str.upper", **kw)
    elif mode == "append_python_qualified":
        p.append_python("verif", module="builtins", attr="str.upper", **kw)
    elif mode == "append_python":
        p.append_python(PAYLOAD_TAG, ARG2[0], module="verif_sink", attr="sink", **kw)
    elif mode == "function_call":
        p.insert_function_call_on_unpickled_object(
            FN_SRC, constant_args=kw["constant_args"], compile_code=kw["compile_code"]
        )
    elif mode == "magic_int":
        idx = {"last": -1, "first": 0, "middle": max(1, len(p) // 2)}[kw["index"]]
        p.insert_magic_int(0x1337BEEF, idx)
    else:
        raise ValueError(mode)


def load_with(loader, data):
    """(outcome, value, sink log); loads from a module-level frame"""
    import verif_sink

    verif_sink.reset()
    fn = "pickle.loads" if loader == "c" else "pickle._loads"
    g = {"pickle": pickle, "data": data, "__name__": "verif_loader"}
    try:
        exec(f"r = {fn}(data)", g)
    except RecursionError as e:
        log = list(verif_sink.LOG)
        verif_sink.reset()
        return ("raised", e, log)
    except Exception as e:  # noqa: BLE001
        log = list(verif_sink.LOG)
        verif_sink.reset()
        return ("raised", e, log)
    log = list(verif_sink.LOG)
    verif_sink.reset()
    return ("ok", g["r"], log)


def is_payload(entry):
    args, _kw = entry
    return len(args) >= 1 and args[0] == PAYLOAD_TAG


def strip_frames(data):
    """same program without FRAME opcodes (the reference VM is the pure-Python unpickler,
    which enforces frame boundaries that an in-place rewrite cannot keep; the accelerated
    unpickler, which the property names for framed pickles, treats frames as prefetch hints)"""
    out = bytearray()
    last = 0
    for op, _arg, pos in pickletools.genops(data):
        if op.name == "FRAME":
            out += data[last:pos]
            last = pos + 9
    out += data[last:]
    return bytes(out)


def base_ok(data):
    """a usable base: one STOP at the end, stock loads it, VM stack empty at STOP"""
    try:
        ops = list(pickletools.genops(data))
    except Exception:  # noqa: BLE001
        return None
    if not ops or ops[-1][0].name != "STOP" or sum(o[0].name == "STOP" for o in ops) != 1:
        return None
    if ops[-1][2] + 1 != len(data):
        return None
    ref = run_ref(strip_frames(data))
    if not ref.ok or ref.stack_at_stop != ([], []):
        return None
    out = load_with("c", data)
    if out[0] != "ok":
        return None
    framed = any(o[0].name == "FRAME" for o in ops)
    return {"ops": ops, "ref": ref, "value": out[1], "log": out[2], "framed": framed}


SHARED = {"data": None, "ops": None, "history": []}


def check(data, mode, kw, loader, shared_history=None):
    """(Failure|None, klass)"""
    from fickling.analysis import check_safety
    from fickling.fickle import Pickled

    base = base_ok(data)
    if base is None:
        return None, "base-rejected"
    if loader == "py" and base["framed"]:
        return None, "framed-skipped-for-pure-python"
    # (the argument is recorded by its position in ARG_SEQUENCE; its repr is for the reader)
    case = {"hex": data.hex(), "mode": mode, "kw": kw, "loader": loader, "arg2": repr(ARG2[0])[:200],
            "arg2_index": next((i for i, a in enumerate(ARG_SEQUENCE) if a is ARG2[0]), None)}
    if mode.endswith("_qualified") and not any(o[0].name == "PROTO" and o[1] >= 4 for o in base["ops"]):
        return None, "qualified-name-needs-protocol-4"
    # every other mode builds its Pickled from one caller-owned opcode list per base, reused from
    # mode to mode (the constructor's documented input is an iterable of opcodes; what a Pickled
    # does to its own sequence must not reach the caller's list or its siblings)
    shared = MODES.index((mode, kw)) % 2 == 1 if (mode, kw) in MODES else False
    if shared_history is not None:
        shared = True
    try:
        if shared:
            if SHARED["data"] != data:
                SHARED.update(data=data, ops=list(Pickled.load(data)), history=[])
                for m0, k0 in shared_history or ():
                    q = Pickled(SHARED["ops"])
                    try:
                        apply_mode(q, m0, k0)
                    except Exception:  # noqa: BLE001
                        pass
                    SHARED["history"].append([m0, k0])
            case["shared_history"] = [list(h) for h in SHARED["history"]]
            SHARED["history"].append([mode, kw])
            p = Pickled(SHARED["ops"])
        else:
            p = Pickled.load(data)
        apply_mode(p, mode, kw)
        out = p.dumps()
    except Exception:  # noqa: BLE001
        return None, "helper-refused"

    def fail(msg):
        return Failure(case, f"{mode}{kw} on base {data[:80]!r} (loader {loader}): {msg}", {"rewritten": out.hex()}), "checked"

    # structure of the rewritten bytes
    try:
        ops = list(pickletools.genops(out))
    except Exception as e:  # noqa: BLE001
        return fail(f"rewritten bytes are not a pickle: {e!r}")
    if ops[-1][0].name != "STOP" or sum(o[0].name == "STOP" for o in ops) != 1 or ops[-1][2] + 1 != len(out):
        return fail("rewritten pickle does not end with its single STOP")
    ref = run_ref(strip_frames(out))
    if not ref.ok:
        return fail(f"reference VM rejects the rewritten bytes: {ref.error!r}")
    keeps_obj_below = mode in ("append_python", "append_python_stdlib", "append_python_qualified") and not kw["pop_result"]
    if ref.stack_at_stop != ([], []) and not keeps_obj_below:
        return fail(f"VM stack not empty at STOP: {ref.stack_at_stop!r}")
    base_fc = [e for e in base["ref"].log.events if e[0] == "import"]
    new_fc = [e for e in ref.log.events if e[0] == "import"]
    it = iter(new_fc)
    if not all(any(x == y for y in it) for x in base_fc):
        return fail(f"base find_class sequence {base_fc} is not a subsequence of {new_fc}")
    # behaviour under the stock unpickler
    res = load_with(loader, out)
    if res[0] != "ok":
        return fail(f"stock unpickler failed on the rewritten bytes: {res[1]!r}")
    value, log = res[1], res[2]
    payload_calls = [e for e in log if is_payload(e)]
    base_calls = [e for e in log if not is_payload(e)]
    stdlib_mode = mode.endswith(("_stdlib", "_qualified"))  # the injected call is not observable through the sink
    if mode == "magic_int" or stdlib_mode:
        if payload_calls:
            return fail("a call of the sink appeared that nobody injected")
    else:
        if len(payload_calls) != 1:
            return fail(f"injected call ran {len(payload_calls)} times (sink log {log!r})")
        args, kws = payload_calls[0]
        want_args = (PAYLOAD_TAG,)
        if mode in ("insert_python", "append_python"):
            want_args = (PAYLOAD_TAG, ARG2[0])
        if mode == "function_call" and kw["constant_args"]:
            want_args = (PAYLOAD_TAG,) + tuple(kw["constant_args"])
        if not values.deep_equal(args, want_args) or kws:
            return fail(f"injected call received {args!r} {kws!r}, expected {want_args!r}")
    if base_calls != base["log"]:
        return fail(f"base effects changed: {base_calls!r} vs original {base['log']!r}")
    if mode != "magic_int" and not stdlib_mode:
        first = kw.get("run_first")
        if first is True and base["log"] and not is_payload(log[0]):
            return fail("run_first=True but the injected call did not run before the base's effects")
        if first is False and base["log"] and not is_payload(log[-1]):
            return fail("run_first=False but the injected call did not run after the base's effects")
    # return value
    sink_ret = lambda *a: ("sunk", a, ())  # noqa: E731
    import platform

    if mode == "insert_python_stdlib":
        want = platform.python_implementation() if kw["use_output_as_unpickle_result"] else base["value"]
    elif mode == "append_python_stdlib":
        want = base["value"] if kw["pop_result"] else platform.python_implementation()
    elif mode == "insert_python_qualified":
        want = "VERIF" if kw["use_output_as_unpickle_result"] else base["value"]
    elif mode == "append_python_qualified":
        want = base["value"] if kw["pop_result"] else "VERIF"
    elif mode in ("insert_python", "insert_python_eval", "insert_python_exec"):
        if kw["use_output_as_unpickle_result"]:
            want = None if mode == "insert_python_exec" else (
                sink_ret(PAYLOAD_TAG, ARG2[0]) if mode == "insert_python" else sink_ret(PAYLOAD_TAG)
            )
        else:
            want = base["value"]
    elif mode == "append_python":
        want = base["value"] if kw["pop_result"] else sink_ret(PAYLOAD_TAG, ARG2[0])
    elif mode == "function_call":
        want = ("wrapped", base["value"])
    else:
        want = base["value"]
    if not values.deep_equal(value, want):
        return fail(f"returned {value!r}, expected {want!r}")
    if mode != "magic_int":
        try:
            sev = check_safety(Pickled.load(out)).severity.name
        except Exception as e:  # noqa: BLE001
            sev = f"raised {type(e).__name__}"
        if sev == "LIKELY_SAFE":
            return fail("fickling rates its own injection LIKELY_SAFE")
    return None, "checked"


def kf_c08_1():
    from fickling.fickle import Pickled

    p = Pickled.load(pickle.dumps([1, 2], protocol=2))
    p.insert_function_call_on_unpickled_object(FN_SRC)
    res = load_with("py", p.dumps())
    if res[0] != "ok":
        return Failure({"kf": "KF-C08-1"}, f"function-call injection fails under pickle._Unpickler: {res[1]!r}")
    return None


def kf_c08_2():
    from fickling.fickle import Pickled

    p = Pickled.load(pickle.dumps([1, 2], protocol=2))
    p.append_python(PAYLOAD_TAG, module="verif_sink", attr="sink", pop_result=False)
    ref = run_ref(p.dumps())
    if ref.ok and ref.stack_at_stop != ([], []):
        return Failure(
            {"kf": "KF-C08-2"},
            f"append_python(pop_result=False) leaves {ref.stack_at_stop[0]!r} on the VM stack at STOP",
        )
    return None


def replay(case):
    if case.get("kf") == "KF-C08-1":
        return kf_c08_1()
    if case.get("kf") == "KF-C08-2":
        return kf_c08_2()
    import ast as _ast

    if case.get("arg2_index") is not None:
        ARG2[0] = ARG_SEQUENCE[case["arg2_index"]]
    else:
        ARG2[0] = _ast.literal_eval(case.get("arg2", "7"))  # replay files written before arg2_index existed
    try:
        SHARED.update(data=None, ops=None, history=[])
        return check(bytes.fromhex(case["hex"]), case["mode"], case["kw"], case["loader"],
                     case.get("shared_history"))[0]
    finally:
        ARG2[0] = 7


HARMLESS_GLOBS = (
    ("verif_sink", "sink"), ("collections", "OrderedDict"), ("verif_objs", "Plain"),
    ("verif_objs", "make"), ("builtins", "list"), ("builtins", "dict"), ("verif_objs", "Slotted"),
)  # fmt: skip


def _bases():
    from hypothesis import strategies as st

    import verif_sink

    eff = st.sampled_from(["e1", "e2", "e3"]).map(verif_sink.Effect)
    inner = st.one_of(values.plain_values(max_leaves=5), values.instance_values(), eff, eff)
    rich = st.recursive(
        inner,
        lambda ch: st.one_of(
            st.lists(ch, max_size=4),
            st.lists(ch, max_size=3).map(tuple),
            st.dictionaries(st.sampled_from(["a", "b", 3]), ch, max_size=3),
            ch.map(lambda x: [x, x]),
        ),
        max_leaves=6,
    )
    big = st.integers(256, 300).map(lambda n: [(i, str(i)) for i in range(n)])
    vals = st.one_of(rich, rich, rich, big)
    nat = st.tuples(vals, st.sampled_from(range(6))).map(lambda t: (_dumps(*t), f"natural-proto{t[1]}"))
    prof = asm.full_profile(HARMLESS_GLOBS)
    progs = asm.programs(prof, max_len=18, single_result=True).map(lambda pr: (pr.data, "assembled"))
    return st.one_of(nat, nat, progs)


def _dumps(v, proto):
    try:
        return pickle.dumps(v, protocol=proto)
    except Exception:  # noqa: BLE001
        return b"N."


def _nt(data, kind):
    names = [o[0].name for o in pickletools.genops(data)]
    memo_puts = sum(n in ("BINPUT", "LONG_BINPUT", "PUT", "MEMOIZE") for n in names)
    return (
        any(n in ("GLOBAL", "STACK_GLOBAL", "INST") for n in names)
        or memo_puts > 255
        or kind in ("natural-proto0", "natural-proto1")
        or (kind == "assembled" and memo_puts > 0)
    )


def shards(tier):
    per = 40 if tier == "quick" else 2500
    return [{"kind": "inject", "n": per, "idx": i} for i in range(16)]


def run_shard(spec, seed):
    res = ShardResult()

    def body(case):
        data, kind = case
        if base_ok(data) is None:
            res.note(data, False, klass=["base-rejected", kind])
            return None
        for mi, (mode, kw) in enumerate(MODES):
            # numerically equal arguments of different types in successive injections, in both
            # orders (int before float and float before int) within every process
            if mode in ("insert_python", "append_python"):
                _ARG_CYCLE[0] += 1
            ARG2[0] = ARG_SEQUENCE[_ARG_CYCLE[0] % len(ARG_SEQUENCE)]
            for loader in LOADERS:
                if mode == "function_call" and loader == "py":
                    res.excluded["KF-C08-1 function-call helper under pure-Python unpickler"] += 1
                    continue
                if mode in ("append_python", "append_python_stdlib") and not kw["pop_result"]:
                    res.excluded["KF-C08-2 stack-empty clause for append_python(pop_result=False)"] += 1
                f, klass = check(data, mode, kw, loader)
                nt = klass == "checked" and _nt(data, kind)
                res.note(
                    (data.hex(), mode, repr(kw), loader),
                    nt,
                    klass=[klass, "mode:" + mode, "loader:" + loader, kind],
                    sample={"base": data.hex(), "mode": mode, "kw": kw, "loader": loader},
                )
                if f is not None:
                    return f
        return None

    hypothesis_search(_bases(), body, seed, spec["n"], res, batch=250)
    return res

#!/venv/bin/python
"""atheris target: raw bytes -> the byte-level oracle of one property (C03, C05, C06, C09).
usage: prog_fuzz.py <PROP> [libFuzzer args...]"""
import os
import sys

sys.path.insert(0, os.path.dirname(os.path.dirname(os.path.abspath(__file__))))
from vlib import env  # noqa: E402,F401

sys.path.insert(0, env.DEPS)
import atheris  # noqa: E402

PROP = sys.argv[1].upper()
del sys.argv[1]

with atheris.instrument_imports(include=["fickling"]):
    import fickling  # noqa: F401
    import fickling.analysis
    import fickling.fickle
    import fickling.tracing

from vlib import decode  # noqa: E402

WORK = os.environ.get("FUZZ_WORK", os.getcwd())

if PROP == "C03":
    from checks import c03 as mod

    def oracle(data):
        return mod.judge(data)[0] if decode.in_typed_domain(data) else None

elif PROP == "C05":
    from checks import c05 as mod

    def oracle(data):
        return mod.judge(data)[0] if decode.in_typed_domain(data) else None

elif PROP == "C09":
    from checks import c09 as mod

    def oracle(data):
        return mod.check_bytes(data) if decode.in_typed_domain(data) else None

elif PROP == "C06":
    from checks import c06 as mod

    def oracle(data):
        n = mod.end_of_first(data)
        if n is None:
            return None
        return mod.check_first(data[:n], data[n:], "bytesio")[0]

else:
    raise SystemExit(f"no byte-level oracle for {PROP}")


def TestOneInput(data):  # noqa: N802
    try:
        f = oracle(bytes(data))
    except RecursionError:
        return
    if f is not None:
        with open(os.path.join(WORK, "violation.txt"), "w") as out:
            out.write(bytes(data).hex() + "\n" + f.message[:2000] + "\n")
        raise RuntimeError("violation: " + f.message[:300])


if __name__ == "__main__":
    atheris.Setup(sys.argv, TestOneInput)
    atheris.Fuzz()

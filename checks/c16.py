"""C16  PyTorch payload insertion changes only the model pickle and keeps the model."""
import hashlib
import os
import zipfile

from vlib.runner import Failure, ShardResult, hypothesis_search
from vlib.sandbox import Scratch, reset_pickle_bindings

ID = "C16"
LEVEL = "exploration"
RULE = (
    "zip-format files written by torch.save from Hypothesis-generated object specs: nn.Modules "
    "(Linear, BatchNorm1d, nested Sequential), their state_dict()s, nested dicts / lists / tuples "
    "of tensors over dtypes {float16, float32, float64, bfloat16, int8, int32, int64, bool, "
    "complex64} and shapes incl. scalars and zero-size, views sharing one storage, plain Python "
    "containers; x payload text (statement calling verif_sink.sink(tag) with tags that are "
    "digits-only / quoted / non-ASCII / escaped) x overwrite in {False, True} x relative naming of "
    "input and output (unrelated, differing only in letter case, suffixed, in a sub-directory). Oracle: sha256 of "
    "the input unchanged (overwrite False) or input path replaced by the output with no stray "
    "file (overwrite True); namelist equal and in order; every member other than */data.pkl "
    "byte-identical; data.pkl == Pickled.load(original).insert_python_exec(payload).dumps(); "
    "torch.load(out, weights_only=False) runs the payload exactly once (sink log) and rebuilds an "
    "equal object (dtype, shape, torch.equal; modules by class + state_dict; shared storage still "
    "shared). Non-trivial = >= 2 storages, a zero-size tensor or shared storage; distinct = "
    "distinct (spec, payload, overwrite)."
    ' Also: models of 200-1500 tensors at pickle protocols 2/4/5 (multi-frame data.pkl),'
    ' parameters passed positionally, and a further injection through the same wrapper after'
    ' overwrite=True (both payloads must then run once).'
)
ASSUMPTIONS = [
    "torch 2.x zip writer/reader as installed; other torch versions are not explored",
    "payload statements only call the harmless sink",
]

DTYPES = ("float16", "float32", "float64", "bfloat16", "int8", "int32", "int64", "bool", "complex64")
SHAPES = ((), (0,), (1,), (3,), (2, 3), (0, 4), (2, 1, 2))
TAGS = ("t", "123", "0", "it's", 'say "hi"', "é", "€", "\U0001d11e", "a\\nb", "back\\\\slash", "x" * 300, "",
        # payload lengths around the 255/256 boundary in characters and in UTF-8 bytes
        "é" * 100, "é" * 110, "é" * 150, "é" * 215, "é" * 216, "é" * 217, "€" * 72, "€" * 75,
        "€" * 200, "\U0001d11e" * 54, "\U0001d11e" * 60, "x" * 215, "x" * 216, "x" * 217, "x" * 65500)


def build(spec, torch):
    kind = spec[0]
    if kind == "tensor":
        _, dtype, shape, seed = spec
        g = torch.Generator().manual_seed(seed)
        dt = getattr(torch, dtype)
        if dtype == "bool":
            return torch.randint(0, 2, shape, generator=g).to(torch.bool)
        if dtype.startswith("int"):
            return torch.randint(-100, 100, shape, generator=g).to(dt)
        if dtype == "complex64":
            return torch.complex(torch.randn(shape, generator=g), torch.randn(shape, generator=g))
        return torch.randn(shape, generator=g).to(dt)
    if kind == "shared":
        base = torch.arange(12, dtype=torch.float32)
        return {"a": base[:6], "b": base[6:], "whole": base.view(3, 4)}
    if kind == "list":
        return [build(s, torch) for s in spec[1]]
    if kind == "tuple":
        return tuple(build(s, torch) for s in spec[1])
    if kind == "dict":
        return {k: build(v, torch) for k, v in spec[1]}
    if kind == "scalar":
        return spec[1]
    if kind == "many":
        # n small tensors: a data.pkl with hundreds of memo entries and, at protocol 4/5 from about
        # 1500 on, more than one FRAME
        g = torch.Generator().manual_seed(spec[1])
        return {f"t{i}": torch.randn(2, generator=g) for i in range(spec[1])}
    if kind in ("module", "state_dict"):
        torch.manual_seed(spec[2])
        nn = torch.nn
        m = {
            "linear": lambda: nn.Linear(3, 2),
            "bn": lambda: nn.BatchNorm1d(4),
            "seq": lambda: nn.Sequential(nn.Linear(2, 3), nn.ReLU(), nn.Sequential(nn.Linear(3, 1), nn.BatchNorm1d(1))),
            "emb": lambda: nn.Embedding(5, 2),
        }[spec[1]]()
        return m if kind == "module" else m.state_dict()
    raise ValueError(spec)


def equal(a, b, torch, pairs):
    if isinstance(a, torch.Tensor):
        if not isinstance(b, torch.Tensor) or a.dtype != b.dtype or a.shape != b.shape:
            return False
        pairs.append((a, b))
        return torch.equal(a, b)
    if isinstance(a, torch.nn.Module):
        if type(a) is not type(b):
            return False
        return equal(dict(a.state_dict()), dict(b.state_dict()), torch, pairs)
    if isinstance(a, dict):
        if not isinstance(b, dict) or list(a) != list(b):
            return False
        return all(equal(a[k], b[k], torch, pairs) for k in a)
    if isinstance(a, (list, tuple)):
        return type(a) is type(b) and len(a) == len(b) and all(equal(x, y, torch, pairs) for x, y in zip(a, b))
    return type(a) is type(b) and a == b


def sharing_preserved(pairs):
    """tensors that shared a storage before must share one after"""
    def key(t):
        try:
            return t.untyped_storage().data_ptr() if t.numel() else None
        except Exception:  # noqa: BLE001
            return None

    for i, (a1, b1) in enumerate(pairs):
        for a2, b2 in pairs[i + 1 :]:
            if key(a1) is not None and key(a1) == key(a2) and key(b1) != key(b2):
                return False
    return True


def sha(path):
    with open(path, "rb") as f:
        return hashlib.sha256(f.read()).hexdigest()


def features(spec):
    out = {"storages": 0, "zero": False, "shared": False}

    def walk(s):
        if s[0] == "tensor":
            out["storages"] += 1
            if 0 in s[2]:
                out["zero"] = True
        elif s[0] == "shared":
            out["shared"] = True
            out["storages"] += 1
        elif s[0] in ("list", "tuple"):
            for x in s[1]:
                walk(x)
        elif s[0] == "dict":
            for _k, v in s[1]:
                walk(v)
        elif s[0] in ("module", "state_dict"):
            out["storages"] += 2
        elif s[0] == "many":
            out["storages"] += s[1]

    walk(spec)
    return out


# how the input and the output are named relative to each other
NAMINGS = {
    "plain": ("model.pt", "out.pt"),
    "case": ("Model.pt", "model.pt"),  # differ only in letter case (distinct files here)
    "suffix": ("model.pt", "model.pt.injected"),
    "subdir": ("model.pt", os.path.join("o", "out.pt")),
    "upper_ext": ("checkpoint.pt", "checkpoint.PT"),
    # the archive's root folder is the file name: names that look like the model pickle's own
    "pkl_like": ("data.pkl.bak", "data.pkl"),
    "pkl_dir": ("data.pkl", "out.data.pkl"),
}


def _listing(root):
    return {os.path.relpath(os.path.join(d, f), root) for d, _ds, fs in os.walk(root) for f in fs}


def check(spec, tag, overwrite, scratch, naming="plain"):
    import torch
    import verif_sink

    from fickling.fickle import Pickled
    from fickling.pytorch import PyTorchModelWrapper

    reset_pickle_bindings()
    case = {"spec": spec, "tag": tag, "overwrite": overwrite, "naming": naming}
    obj = build(spec, torch)
    src_name, dst_name = NAMINGS[naming]
    src = os.path.join(scratch.path, src_name)
    dst = os.path.join(scratch.path, dst_name)
    os.makedirs(os.path.dirname(dst), exist_ok=True)
    if spec[0] == "many":
        torch.save(obj, src, pickle_protocol=spec[2])
    else:
        torch.save(obj, src)
    # (every other case) a payload with a whitespace-only line and trailing blanks: what is
    # executed must be the payload exactly as given
    if len(tag) % 2:
        payload = f"import verif_sink\n    \nif True:\n    verif_sink.sink({tag!r})\n  "
    else:
        payload = f"import verif_sink\nverif_sink.sink({tag!r})"
    with zipfile.ZipFile(src) as z:
        names0 = z.namelist()
        members0 = {n: z.read(n) for n in names0}
        stored0 = {i.filename: (i.compress_type, i.compress_size, i.file_size) for i in z.infolist()}
    sha0 = sha(src)
    pkl_name = next(n for n in names0 if n.endswith("/data.pkl"))

    def fail(msg):
        return Failure(case, f"insertion into torch.save({_brief(spec)}) overwrite={overwrite}: {msg}")

    try:
        want_p = Pickled.load(members0[pkl_name])
        want_p.insert_python_exec(payload)
        want_pkl = want_p.dumps()
    except Exception as e:  # noqa: BLE001
        return fail(f"the payload {payload[:60]!r}... cannot be inserted into data.pkl at all: "
                    f"{type(e).__name__}: {e}")

    # (some cases) the caller's working directory holds a file that happens to be named like the
    # payload text: the payload is code, never a path
    cwd0 = os.getcwd()
    if len(tag) % 4 == 2 and "/" not in payload and "\x00" not in payload:
        try:
            with open(os.path.join(scratch.path, payload), "w") as f:
                f.write("import verif_sink\nverif_sink.sink('DECOY FILE CONTENT')\n")
            os.chdir(scratch.path)
        except (OSError, ValueError):
            pass
    before = _listing(scratch.path)
    import contextlib
    import io
    import warnings

    try:
        with warnings.catch_warnings(), contextlib.redirect_stdout(io.StringIO()):
            warnings.simplefilter("ignore")
            wrapper = PyTorchModelWrapper(src)
            if len(tag) % 3 == 0:
                # the documented parameter order, passed positionally
                wrapper.inject_payload(payload, dst, "insertion", overwrite)
            else:
                wrapper.inject_payload(payload, dst, injection="insertion", overwrite=overwrite)
    except Exception as e:  # noqa: BLE001
        return fail(f"inject_payload raised {type(e).__name__}: {e}")
    finally:
        os.chdir(cwd0)
    after = _listing(scratch.path)
    if overwrite:
        if after != before:
            return fail(f"directory changed: {sorted(after ^ before)} (stray output left or input removed; "
                        f"input {src_name!r}, requested output {dst_name!r})")
        if sha(src) == sha0:
            return fail(f"overwrite requested but the input {src_name!r} still has its original bytes "
                        f"(requested output {dst_name!r})")
        result = src
    else:
        if after - before != {dst_name} or before - after:
            return fail(f"directory delta {sorted(after ^ before)}, expected only {dst_name}")
        if sha(src) != sha0:
            return fail("the input file was modified although overwrite was not requested")
        result = dst
    try:
        with zipfile.ZipFile(result) as z:
            names1 = z.namelist()
            members1 = {n: z.read(n) for n in names1}
            stored1 = {i.filename: (i.compress_type, i.compress_size, i.file_size) for i in z.infolist()}
    except Exception as e:  # noqa: BLE001
        return fail(f"output is not a readable zip: {e!r}")
    if names1 != names0:
        return fail(f"member names/order changed: {names1} vs {names0}")
    for n in names0:
        if n == pkl_name:
            continue
        if members1[n] != members0[n]:
            return fail(f"member {n} changed")
        if stored1[n] != stored0[n]:
            # "byte-identical" as a member of the archive: torch maps tensor data straight out of
            # the file (mmap=True), which needs it stored the way it was
            return fail(f"member {n} is stored differently (compress type, stored size, size): {stored1[n]} vs {stored0[n]}")
    if members1[pkl_name] != want_pkl:
        return fail("data.pkl is not the original with the exec payload inserted")
    import pickletools

    consts = [arg for op, arg, _ in pickletools.genops(members1[pkl_name]) if isinstance(arg, str)]
    if payload not in consts:
        return fail(f"the injected pickle does not carry the payload exactly as given ({payload[:50]!r}...)")
    verif_sink.reset()
    try:
        loaded = torch.load(result, weights_only=False)
    except Exception as e:  # noqa: BLE001
        return fail(f"torch.load of the output failed: {type(e).__name__}: {e}")
    log = list(verif_sink.LOG)
    verif_sink.reset()
    if log != [((tag,), {})]:
        return fail(f"payload ran {len(log)} times / with {log!r}, expected once with {tag!r}")
    pairs = []
    if not equal(obj, loaded, torch, pairs):
        return fail("the loaded object differs from the original")
    if not sharing_preserved(pairs):
        return fail("tensors that shared a storage no longer do")
    if not overwrite:
        # history: the untouched input is injected again, by a fresh wrapper, in this process
        tag2 = tag + "#2"
        payload2 = f"import verif_sink\nverif_sink.sink({tag2!r})"
        dst2 = os.path.join(scratch.path, "out2.pt")
        try:
            with warnings.catch_warnings(), contextlib.redirect_stdout(io.StringIO()):
                warnings.simplefilter("ignore")
                PyTorchModelWrapper(src).inject_payload(payload2, dst2, injection="insertion")
        except Exception as e:  # noqa: BLE001
            return fail(f"second inject_payload on the same input raised {type(e).__name__}: {e}")
        want2 = Pickled.load(members0[pkl_name])
        want2.insert_python_exec(payload2)
        with zipfile.ZipFile(dst2) as z:
            got2 = z.read(pkl_name)
        if got2 != want2.dumps():
            return fail("a second injection from the same untouched input does not produce the "
                        "original data.pkl with (only) the second payload inserted")
        if sha(src) != sha0:
            return fail("the input file was modified by the second injection")
        verif_sink.reset()
        torch.load(dst2, weights_only=False)
        log2 = list(verif_sink.LOG)
        verif_sink.reset()
        if log2 != [((tag2,), {})]:
            return fail(f"second output ran {log2!r}, expected exactly the second payload once")
    else:
        # history: the same wrapper object is used again after it has replaced its input (the
        # usage of the project's own example): its input now is the injected archive, so the new
        # output carries both calls
        tag2 = tag + "#2"
        payload2 = f"import verif_sink\nverif_sink.sink({tag2!r})"
        dst2 = os.path.join(scratch.path, "out2.pt")
        try:
            with warnings.catch_warnings(), contextlib.redirect_stdout(io.StringIO()):
                warnings.simplefilter("ignore")
                wrapper.inject_payload(payload2, dst2, injection="insertion")
        except Exception as e:  # noqa: BLE001
            return fail(f"a further inject_payload through the same wrapper after overwrite=True raised {type(e).__name__}: {e}")
        verif_sink.reset()
        try:
            torch.load(dst2, weights_only=False)
        except Exception as e:  # noqa: BLE001
            return fail(f"the output of a further injection through the same wrapper does not load: {e!r}")
        log2 = sorted(a[0] for a, _k in verif_sink.LOG)
        verif_sink.reset()
        if log2 != sorted([tag, tag2]):
            return fail(f"after overwrite=True the wrapper's input holds the first payload; a further injection "
                        f"through the same wrapper gives an archive that runs {log2!r}, expected each of {[tag, tag2]!r} once")
    return None


def _brief(spec):
    s = repr(spec)
    return s if len(s) < 160 else s[:160] + "..."


def replay(case):
    with Scratch("c16") as scratch:
        return check(_tup(case["spec"]), case["tag"], case["overwrite"], scratch, case.get("naming", "plain"))


def _tup(x):
    if isinstance(x, list):
        return tuple(_tup(v) for v in x)
    return x


def _specs():
    from hypothesis import strategies as st

    tensor = st.tuples(st.just("tensor"), st.sampled_from(DTYPES), st.sampled_from(SHAPES), st.integers(0, 50))
    leaf = st.one_of(
        tensor,
        tensor,
        st.tuples(st.just("shared")),
        st.tuples(st.just("scalar"), st.one_of(st.integers(-5, 5), st.sampled_from(["s", 1.5, None, True]))),
        st.tuples(st.sampled_from(["module", "state_dict"]), st.sampled_from(["linear", "bn", "seq", "emb"]), st.integers(0, 9)),
    )
    return st.recursive(
        leaf,
        lambda ch: st.one_of(
            st.tuples(st.just("list"), st.lists(ch, max_size=3).map(tuple)),
            st.tuples(st.just("tuple"), st.lists(ch, max_size=3).map(tuple)),
            st.tuples(
                st.just("dict"),
                st.dictionaries(st.sampled_from(["w", "b", "layer.0", "x"]), ch, max_size=3).map(
                    lambda d: tuple(d.items())
                ),
            ),
        ),
        max_leaves=5,
    )


def shards(tier):
    per = 60 if tier == "quick" else 6000
    return [{"kind": "files", "n": per, "idx": i} for i in range(12)]


def run_shard(spec_, seed):
    from hypothesis import strategies as st

    import torch

    torch.set_num_threads(1)
    res = ShardResult()
    from vlib import values

    tags = st.one_of(st.sampled_from(TAGS), values.texts(20))
    strat = st.tuples(_specs(), tags, st.booleans(), st.sampled_from(sorted(NAMINGS)))
    with Scratch("c16") as scratch:
        if spec_["idx"] < 4:
            # large models at explicit pickle protocols (multi-frame data.pkl, > 255 memo entries)
            for big in (("many", 1500, 4), ("many", 200, 4), ("many", 1500, 2), ("many", 1500, 5), ("many", 30, 1),
                        ("many", 300, 3), ("many", 30, 5), ("many", 300, 1))[spec_["idx"]::4]:
                for overwrite in (False, True):
                    f = check(big, "big", overwrite, scratch, "plain")
                    res.note(repr((big, overwrite)), True, klass=[f"overwrite={overwrite}", "many-tensors", f"protocol{big[2]}"],
                             sample={"spec": list(big), "overwrite": overwrite})  # fmt: skip
                    scratch.wipe()
                    if f is not None:
                        res.failures.append(f)
                        return res

        def body(case):
            spec, tag, overwrite, naming = case
            f = check(spec, tag, overwrite, scratch, naming)
            ft = features(spec)
            res.note(
                repr(case),
                ft["storages"] >= 2 or ft["zero"] or ft["shared"],
                klass=[f"overwrite={overwrite}", "shared" if ft["shared"] else "unshared", spec[0], f"naming-{naming}"],
                sample={"spec": _brief(spec), "tag": tag[:40], "overwrite": overwrite},
            )
            scratch.wipe()
            return f

        hypothesis_search(strat, body, seed, spec_["n"], res, batch=200)
    return res

"""Child of C07's fresh-process shard.  argv: REPO HELPERS PRELUDE ENTRY

In a fresh interpreter, do what an application may have done before fickling is imported
(PRELUDE), then import fickling, activate the safe ML environment and send a pickle naming a
non-allow-listed global through ENTRY.  Prints one JSON object."""
import io
import json
import sys


def main():
    repo, helpers, prelude, entry = sys.argv[1:5]
    sys.path.insert(0, helpers)
    sys.path.insert(0, repo)
    import functools
    import pickle

    import _pickle

    if prelude == "pickle.load wrapped":
        orig = pickle.load

        @functools.wraps(orig)
        def traced_load(*a, **k):
            return orig(*a, **k)

        pickle.load = traced_load
    elif prelude == "pickle.loads wrapped":
        orig_s = pickle.loads

        @functools.wraps(orig_s)
        def traced_loads(*a, **k):
            return orig_s(*a, **k)

        pickle.loads = traced_loads
    elif prelude == "pickle imported as alias first":
        import pickle as pk  # noqa: F401
    import verif_sink

    import fickling.hook as hook
    from fickling.exception import UnsafeFileError

    hook.activate_safe_ml_environment()
    data = b"cverif_sink\nsink\n(S'fresh'\ntR."
    fn = {"pickle.load": lambda: pickle.load(io.BytesIO(data)), "pickle.loads": lambda: pickle.loads(data),
          "_pickle.load": lambda: _pickle.load(io.BytesIO(data)), "_pickle.loads": lambda: _pickle.loads(data)}[entry]
    verif_sink.reset()
    try:
        fn()
        outcome = "returned"
    except UnsafeFileError:
        outcome = "refused"
    except Exception as e:  # noqa: BLE001
        outcome = "raised " + type(e).__name__
    print(json.dumps({"outcome": outcome, "ran": bool(verif_sink.LOG)}))


if __name__ == "__main__":
    main()

"""C14  Edits through the sequence interface keep every derived view coherent."""
import ast
import pickle

from vlib.runner import Failure, Found, ShardResult, derive_seed, hypothesis_settings

ID = "C14"
LEVEL = "exploration"
RULE = (
    "Hypothesis RuleBasedStateMachine over one Pickled object started from a natural pickle "
    "(generated value, protocols 0-5) or an assembled program: rules insert / p[i]=op / "
    "p[i:j]=ops / p[i]=equal-looking opcode of the same class / del p[i] / del p[i:j] / append / extend / pop / remove / reverse / += / the "
    "a compound read-edit-read step / extend and += with an iterable that fails half-way / the "
    "injection helpers (insert_python_eval/exec in all flag combinations, append_python, "
    "insert_magic_int, insert_function_call_on_unpickled_object) interleaved with reads of one "
    "derived view (ast dump, has_import, has_call, has_non_setstate_call, imports text, "
    "severity, dumps(), dump(file)), including an opcode larger than 64 KiB. The object under test and a never-edited sibling are both "
    "constructed from one caller-owned opcode list. Oracle: each read (of either) equals the same view of Pickled(list(p)) built fresh at "
    "that moment (same value, or the same exception type when the edited program is invalid), "
    "and dumps() / dump(file) == concatenation of the current opcodes' data. Non-trivial = a view was read, "
    "then an edit happened, then the same view was read again; distinct = distinct histories."
    " Also: extend / += with an iterable that fails half-way; an interpreter of one's own (plain"
    ' or traced, custom numbering) run over the object between edit and read; Python-2 module'
    ' names among the insertable globals; len / nb_opcodes / opcodes views.'
)
ASSUMPTIONS = [
    "opcode objects are drawn from a pool of classes whose encoder exists (constructed) or from "
    "the parsed start pickle",
    "an edit that the sequence interface itself rejects (IndexError etc.) is a no-op for the "
    "model",
]

VIEWS = ("astdump", "has_import", "has_call", "has_nss_call", "imports", "severity", "severity_narrow", "dumps", "dump_file", "counts")
# every opcode class without an argument (the machine draws from all of them)
SIMPLE = ("MARK", "TUPLE", "REDUCE", "POP", "STOP", "EMPTY_LIST", "EMPTY_DICT", "APPEND", "MEMOIZE",
          "NONE", "DUP", "EMPTY_TUPLE", "TUPLE1", "BUILD", "POP_MARK", "STACK_GLOBAL", "NEWOBJ",
          "NEWOBJ_EX", "OBJ", "EMPTY_SET", "ADDITEMS", "SETITEM", "SETITEMS", "APPENDS", "TUPLE2",
          "TUPLE3", "LIST", "DICT", "FROZENSET", "BINPERSID", "NEWTRUE", "NEWFALSE")  # fmt: skip


def make_op(spec):
    from fickling import fickle

    kind = spec[0]
    if kind == "simple":
        return fickle.OPCODES_BY_NAME[spec[1]]()
    if kind == "global":
        return fickle.Global.create(spec[1], spec[2])
    if kind == "const":
        return fickle.ConstantOpcode.new(spec[1])
    if kind == "put":
        return fickle.Put(spec[1])
    if kind == "get":
        return fickle.Get.create(spec[1])
    if kind == "proto":
        return fickle.Proto.create(spec[1])
    raise ValueError(spec)


def sdump(node, _path=frozenset()):
    """structural dump of an AST that, unlike ast.dump, also descends into tuple-valued
    fields (fickling stores Tuple.elts as a Python tuple)"""
    if isinstance(node, ast.AST):
        if id(node) in _path:
            return ("cycle", type(node).__name__)  # edits can build self-containing lists
        _path = _path | {id(node)}
        return (type(node).__name__,) + tuple(
            (f, sdump(getattr(node, f, None), _path)) for f in node._fields
        )
    if isinstance(node, (list, tuple)):
        return tuple(sdump(x, _path) for x in node)
    if isinstance(node, float):
        return ("float", repr(node))
    if node is None or isinstance(node, (bool, int, str, bytes)):
        return (type(node).__name__, node)
    # any other object embedded in the tree (e.g. a MarkObject left by an invalid program)
    return ("object", type(node).__name__)


def _cyclic(node, _path=None, _done=None):
    """does the tree contain itself?  (linear: shared sub-trees are visited once)"""
    import ast as _ast

    _path = _path if _path is not None else set()
    _done = _done if _done is not None else set()
    if isinstance(node, _ast.AST):
        if id(node) in _path:
            return True
        if id(node) in _done:
            return False
        _path.add(id(node))
        try:
            return any(_cyclic(getattr(node, f, None), _path, _done) for f in node._fields)
        finally:
            _path.discard(id(node))
            _done.add(id(node))
    if isinstance(node, (list, tuple)):
        return any(_cyclic(x, _path, _done) for x in node)
    return False


EXPANSION_BUDGET = 200_000


def _too_big(node):
    """would writing this tree out (shared sub-trees once per reference, as every printer and
    every analysis visits them) take more than EXPANSION_BUDGET nodes?  DUP / memo references nest
    sharing exponentially: `(N2t2t2t...` doubles per level.  Such trees are compared by none of
    the views: neither the object under test nor a fresh one could be asked in bounded time."""
    import ast as _ast

    n = 0
    stack = [node]
    while stack:
        x = stack.pop()
        n += 1
        if n > EXPANSION_BUDGET:
            return True
        if isinstance(x, _ast.AST):
            stack.extend(getattr(x, f, None) for f in x._fields)
        elif isinstance(x, (list, tuple)):
            stack.extend(x)
    return False


_NARROW = {}


def _narrow():
    if "a" not in _NARROW:
        from fickling.analysis import Analysis, Analyzer

        _NARROW["a"] = Analyzer([a for a in Analysis.ALL if type(a).__name__ in ("DuplicateProtoAnalysis", "MisplacedProtoAnalysis", "UnusedVariables")])
    return _NARROW["a"]


def view(p, which):
    from fickling.analysis import check_safety

    try:
        if which not in ("dumps", "dump_file", "counts") and _too_big(p.ast):
            return ("raised", "expansion-too-large")
        if which == "astdump":
            return ("ok", sdump(p.ast))
        if which == "has_import":
            return ("ok", p.has_import)
        if which == "has_call":
            return ("ok", p.has_call)
        if which == "has_nss_call":
            return ("ok", p.has_non_setstate_call)
        if which == "imports":
            return ("ok", tuple(ast.unparse(n) for n in p.properties.imports))
        if which in ("severity", "severity_narrow") and _cyclic(p.ast):
            # edits can build a list that contains itself; ast.walk (used by one analysis) never
            # returns on such a tree. Termination is no part of the property: not asked.
            return ("raised", "cyclic-ast")
        if which == "severity":
            return ("ok", check_safety(p).severity.name)
        if which == "severity_narrow":
            # the verdict of an analyzer of one's own (two of the analyses only)
            return ("ok", check_safety(p, analyzer=_narrow()).severity.name)
        if which == "dumps":
            return ("ok", p.dumps())
        if which == "counts":
            return ("ok", (len(p), p.nb_opcodes, [o.name for o in p.opcodes], [o.name for o in p]))
        if which == "dump_file":
            import io

            buf = io.BytesIO()
            p.dump(buf)
            return ("ok", buf.getvalue())
    except RecursionError:
        return ("raised", "RecursionError")
    except Exception as e:  # noqa: BLE001
        return ("raised", type(e).__name__)
    raise ValueError(which)


def apply_step(p, step):
    """Apply one edit step to the Pickled under test. Exceptions of the edit itself
    (bad index, helper precondition) are swallowed: the edit then did not happen
    (or happened partially) and the oracle still compares against the current list."""
    kind = step[0]
    n = len(p)
    try:
        if kind == "insert":
            p.insert(step[1] % (n + 1), make_op(step[2]))
        elif kind == "setitem":
            if n:
                p[step[1] % n] = make_op(step[2])
        elif kind == "setslice":
            i, j = sorted((step[1] % (n + 1), step[2] % (n + 1)))
            p[i:j] = [make_op(s) for s in step[3]]
        elif kind == "replace_equal":
            # p[i] = an opcode of the same class whose argument compares equal but is not the
            # same value (True for 1, -0.0 for 0.0, ...), or an identical copy
            if n:
                # prefer an opcode that has an equal-but-different twin argument
                cands = [j for j in range(n) if isinstance(p[j].arg, (bool, float))
                         or (isinstance(p[j].arg, int) and p[j].arg in (0, 1) and p[j].name == "INT")]
                i = cands[step[1] % len(cands)] if cands else step[1] % n
                old = p[i]
                twins = {True: 1, False: 0}
                arg = old.arg
                if isinstance(arg, bool):
                    arg = int(arg)
                elif isinstance(arg, int) and arg in (0, 1) and old.name == "INT":
                    arg = bool(arg)
                elif isinstance(arg, float) and arg == 0.0:
                    arg = -arg
                _ = twins
                p[i] = type(old)(arg)
        elif kind == "delitem":
            if n:
                del p[step[1] % n]
        elif kind == "delslice":
            i, j = sorted((step[1] % (n + 1), step[2] % (n + 1)))
            del p[i:j]
        elif kind in ("delstep", "setstep"):
            # extended slices: any step, open or closed ends, forwards or backwards
            a = None if step[1] is None else step[1] % (n + 1)
            b = None if step[2] is None else step[2] % (n + 1)
            sl = slice(a, b, step[3])
            if kind == "delstep":
                del p[sl]
            else:
                m = len(range(*sl.indices(n)))
                specs = step[4] or [("simple", "NONE")]
                p[sl] = [make_op(specs[t % len(specs)]) for t in range(m)]
        elif kind == "append":
            p.append(make_op(step[1]))
        elif kind == "extend":
            p.extend([make_op(s) for s in step[1]])
        elif kind == "extend_fails":
            # extend / += with an iterable that fails half-way (raises, or yields something that is
            # not an opcode): whatever was added before the failure is part of the opcode list
            def items():
                for s in step[1]:
                    yield make_op(s)
                if step[2] == "raise":
                    raise RuntimeError("iterable failed")
                yield "not an opcode"
                yield make_op(("simple", "NONE"))

            try:
                if step[3]:
                    p += items()
                else:
                    p.extend(items())
            except Exception:  # noqa: BLE001 - the caller catches and carries on
                pass
        elif kind == "interpret":
            # not an edit: somebody runs an interpreter of their own over the object (as the CLI
            # does for the members of a stack), plainly or traced
            import contextlib
            import io

            from fickling.fickle import Interpreter
            from fickling.tracing import Trace

            it = Interpreter(p, first_variable_id=step[1], result_variable=f"result{step[1]}")
            traced = step[2]
            if traced:
                # the tracer prints the whole stack after every opcode: on a tree whose shared
                # sub-trees expand beyond the budget that is gigabytes of text - run it plainly
                try:
                    traced = not _too_big(Interpreter(p).to_ast())
                except Exception:  # noqa: BLE001
                    pass
            if traced:
                with contextlib.redirect_stdout(io.StringIO()):
                    Trace(it).run()
            else:
                it.to_ast()
        elif kind == "pop":
            if n:
                p.pop(step[1] % n)
        elif kind == "remove":
            if n:
                p.remove(p[step[1] % n])
        elif kind == "reverse":
            p.reverse()
        elif kind == "clear":
            p.clear()
        elif kind == "iadd":
            p += [make_op(s) for s in step[1]]
        elif kind == "helper":
            name, kw = step[1], step[2]
            if name == "insert_python_eval":
                p.insert_python_eval("1+1", **kw)
            elif name == "insert_python_exec":
                p.insert_python_exec("x=1", **kw)
            elif name == "append_python":
                p.append_python("2+2", **kw)
            elif name == "insert_magic_int":
                p.insert_magic_int(kw["magic"], kw["index"] if kw["index"] < 0 else kw["index"] % (n + 1))
            elif name == "insert_function_call":
                p.insert_function_call_on_unpickled_object(
                    "def f(obj):\n    return obj", compile_code=kw.get("compile_code", False)
                )
        else:
            raise ValueError(step)
    except (IndexError, ValueError, TypeError, KeyError, NotImplementedError, AttributeError, RecursionError):
        pass
    return p


def compare(p, which):
    """None if the view of p equals the view of a freshly constructed Pickled."""
    from fickling.fickle import Pickled

    got = view(p, which)
    fresh = Pickled(list(p))
    want = view(fresh, which)
    if got != want:
        return f"view {which!r} is {_s(got)} but a fresh Pickled over the same opcodes gives {_s(want)}"
    if which in ("dumps", "dump_file") and got[0] == "ok":
        cat = b"".join(op.data for op in p)
        if got[1] != cat:
            return f"{which} is not the concatenation of the current opcodes' encodings"
    if which == "dump_file" and got[0] == "ok":
        # the same view through a text-mode file: refused, or exactly these bytes
        import os

        from vlib import env
        from vlib.textdump import text_dump_problem

        os.makedirs(env.SCRATCH, exist_ok=True)
        msg = text_dump_problem(p, env.SCRATCH, "-c14")
        if msg:
            return msg
    return None


def _s(x):
    r = repr(x)
    return r if len(r) < 300 else r[:300] + "..."


def run_history(start_hex, history):
    """Replay without Hypothesis. Returns message or None."""
    from fickling.fickle import Pickled

    p, sib = start_pair(bytes.fromhex(start_hex))
    for step in history:
        if step[0] == "read":
            msg = compare(p, step[1]) or compare_sibling(sib, step[1])
            if msg:
                return msg
        elif step[0] == "check_all":
            for v in VIEWS:
                msg = compare(p, v) or compare_sibling(sib, v)
                if msg:
                    return msg
        elif step[0] == "edit_between_reads":
            msg = compare(p, step[1]) or compare_sibling(sib, step[1])
            if msg:
                return msg
            apply_step(p, _tup(step[2]))
            msg = compare(p, step[1]) or compare_sibling(sib, step[1])
            if msg:
                return msg
        else:
            apply_step(p, step)
    return None


def start_pair(data):
    """the Pickled under test and a sibling, both constructed from one caller-owned opcode list
    (the constructor's documented input is any iterable of opcodes); only the first is edited"""
    from fickling.fickle import Pickled

    ops = list(Pickled.load(data))
    return Pickled(ops), Pickled(ops)


def compare_sibling(sib, which):
    msg = compare(sib, which)
    return f"[sibling built from the same opcode list, never edited] {msg}" if msg else None


def replay(case):
    msg = run_history(case["start"], [_tup(s) for s in case["history"]])
    if msg:
        return Failure(case, f"after {len(case['history'])} steps from {case['start']}: {msg}")
    return None


def _tup(x):
    if isinstance(x, list):
        return tuple(_tup(v) if isinstance(v, list) and v and isinstance(v[0], str) is False else v
                     for v in x)  # fmt: skip
    return x


def _machine(res, holder):
    from hypothesis import strategies as st
    from hypothesis.stateful import RuleBasedStateMachine, initialize, rule

    from fickling.fickle import Pickled
    from vlib import asm, values, vocab

    specs = st.one_of(
        st.tuples(st.just("simple"), st.sampled_from(SIMPLE)),
        st.tuples(st.just("global"), st.sampled_from(["os", "builtins", "collections", "foo", "Queue", "itertools", "copy_reg", "dbm"]),
                  st.sampled_from(["system", "eval", "OrderedDict", "Bar", "izip", "Queue", "whichdb"])),
        st.tuples(st.just("const"), st.one_of(st.integers(-5, 70000), st.sampled_from(["a", "id", "", "os", "system", "builtins", "eval"]))),
        st.tuples(st.just("put"), st.integers(0, 3)),
        st.tuples(st.just("get"), st.integers(0, 3)),
        st.tuples(st.just("proto"), st.integers(0, 5)),
    )  # fmt: skip
    # opcodes that change the program's structure wherever they land (every NoOp subclass among
    # them: PROTO, FRAME-like STACK_GLOBAL), and one opcode larger than any I/O buffer
    structural = st.one_of(
        st.tuples(st.just("simple"), st.sampled_from(["STACK_GLOBAL", "REDUCE", "POP", "MARK", "TUPLE2", "BUILD"])),
        st.tuples(st.just("proto"), st.integers(0, 5)),
        st.tuples(st.just("const"), st.sampled_from(["os", "system", "y" * 70000])),
    )
    idx = st.integers(0, 40)
    prof = asm.full_profile(vocab.ASM_GLOBS + vocab.ASM_GLOBS_PY2)
    starts = st.one_of(
        st.tuples(values.plain_values(max_leaves=6), st.sampled_from(range(6))).map(
            lambda t: pickle.dumps(t[0], protocol=t[1])
        ),
        asm.programs(prof, max_len=12).map(lambda pr: pr.data),
        st.sampled_from([b"N.", b"].", b"I01\n.", b"(lp0\nI01\naI00\naI1\na.", b"I00\nI01\n\x86.",
                         pickle.dumps([0.0, -0.0, 1.0], 2), b"G\x00\x00\x00\x00\x00\x00\x00\x00.",
                         pickle.dumps((True, 0.0, 1), 0)]),
    )

    class Edits(RuleBasedStateMachine):
        def __init__(self):
            super().__init__()
            self.p = None
            self.start = None
            self.history = []
            self.reads = {}
            self.edits = 0
            self.nontrivial = False

        @initialize(data=starts)
        def start_from(self, data):
            try:
                self.p, self.sib = start_pair(data)
            except Exception:  # noqa: BLE001
                data = b"N."
                self.p, self.sib = start_pair(data)
            self.start = data.hex()

        def _edit(self, step):
            self.history.append(step)
            self.edits += 1
            apply_step(self.p, step)

        def _fail(self, msg):
            case = {"start": self.start, "history": [list(s) for s in self.history]}
            holder["f"] = Failure(
                case, f"after {len(self.history)} steps from {self.start}: {msg}"
            )
            holder.setdefault("first", holder["f"])
            raise Found(msg)

        @rule(i=idx, s=specs)
        def insert(self, i, s):
            self._edit(("insert", i, s))

        @rule(i=idx, s=specs)
        def setitem(self, i, s):
            self._edit(("setitem", i, s))

        @rule(i=idx, j=idx, ss=st.lists(specs, max_size=3))
        def setslice(self, i, j, ss):
            self._edit(("setslice", i, j, ss))

        @rule(i=idx)
        def replace_equal(self, i):
            self._edit(("replace_equal", i))

        @rule(i=idx)
        def delitem(self, i):
            self._edit(("delitem", i))

        @rule(i=idx, j=idx)
        def delslice(self, i, j):
            self._edit(("delslice", i, j))

        @rule(i=st.one_of(st.none(), idx), j=st.one_of(st.none(), idx), k=st.sampled_from([-3, -2, -1, 2, 3]))
        def delstep(self, i, j, k):
            self._edit(("delstep", i, j, k))

        @rule(i=st.one_of(st.none(), idx), j=st.one_of(st.none(), idx), k=st.sampled_from([-3, -2, -1, 2, 3]),
              ss=st.lists(specs, min_size=1, max_size=3))
        def setstep(self, i, j, k, ss):
            self._edit(("setstep", i, j, k, ss))

        @rule(s=specs)
        def append(self, s):
            self._edit(("append", s))

        @rule(ss=st.lists(specs, max_size=3))
        def extend(self, ss):
            self._edit(("extend", ss))

        @rule(ss=st.lists(st.one_of(specs, structural), min_size=1, max_size=3), how=st.sampled_from(["raise", "bad_item"]),
              iadd=st.booleans(), v=st.sampled_from(VIEWS))  # fmt: skip
        def extend_fails(self, ss, how, iadd, v):
            # read a view first so that it is cached when the failing extend happens
            self.history.append(("read", v))
            msg = compare(self.p, v) or compare_sibling(self.sib, v)
            if msg:
                self._fail(msg)
            self._edit(("extend_fails", ss, how, iadd))
            self.history.append(("read", v))
            self.nontrivial = True
            msg = compare(self.p, v) or compare_sibling(self.sib, v)
            if msg:
                self._fail(msg)

        @rule(k=st.integers(1, 5), traced=st.booleans(), v=st.sampled_from(VIEWS), edit_first=st.booleans(), s=st.one_of(specs, structural))
        def interpret(self, k, traced, v, edit_first, s):
            if edit_first:
                self._edit(("append", s))  # so that no view is cached when the interpreter runs
            self.history.append(("interpret", k, traced))
            apply_step(self.p, ("interpret", k, traced))
            self.history.append(("read", v))
            self.nontrivial = True
            msg = compare(self.p, v) or compare_sibling(self.sib, v)
            if msg:
                self._fail(msg)

        @rule(i=idx)
        def pop(self, i):
            self._edit(("pop", i))

        @rule(i=idx)
        def remove(self, i):
            self._edit(("remove", i))

        @rule()
        def reverse(self):
            self._edit(("reverse",))

        @rule(ss=st.lists(specs, max_size=3))
        def iadd(self, ss):
            self._edit(("iadd", ss))

        @rule(
            h=st.one_of(
                st.tuples(
                    st.sampled_from(["insert_python_eval", "insert_python_exec"]),
                    st.fixed_dictionaries(
                        {"run_first": st.booleans(), "use_output_as_unpickle_result": st.booleans()}
                    ),
                ),
                st.tuples(
                    st.just("append_python"), st.fixed_dictionaries({"pop_result": st.booleans()})
                ),
                st.tuples(
                    st.just("insert_magic_int"),
                    st.fixed_dictionaries(
                        {"magic": st.integers(0, 2**31), "index": st.integers(-1, 10)}
                    ),
                ),
                st.tuples(
                    st.just("insert_function_call"),
                    st.fixed_dictionaries({"compile_code": st.booleans()}),
                ),
            )
        )
        def helper(self, h):
            self._edit(("helper", h[0], h[1]))

        @rule(v=st.sampled_from(VIEWS))
        def read(self, v):
            self.history.append(("read", v))
            if v in self.reads and self.reads[v] < self.edits:
                self.nontrivial = True
            self.reads[v] = self.edits
            msg = compare(self.p, v) or compare_sibling(self.sib, v)
            if msg:
                self._fail(msg)

        @rule()
        def check_all(self):
            self.history.append(("check_all",))
            for v in VIEWS:
                msg = compare(self.p, v) or compare_sibling(self.sib, v)
                if msg:
                    self._fail(msg)

        @rule(v=st.sampled_from(VIEWS), kind=st.sampled_from(["insert", "setitem", "append", "replace_equal", "replace_equal"]),
              i=idx, s=st.one_of(specs, structural))  # fmt: skip
        def edit_between_reads(self, v, kind, i, s):
            # read a view (so it is cached), make one edit, read the same view again
            step = (kind, s) if kind == "append" else (kind, i) if kind == "replace_equal" else (kind, i, s)
            self.history.append(("edit_between_reads", v, step))
            self.nontrivial = True
            self.reads[v] = self.edits + 1
            msg = compare(self.p, v) or compare_sibling(self.sib, v)
            if msg:
                self._fail(msg)
            self.edits += 1
            apply_step(self.p, step)
            msg = compare(self.p, v) or compare_sibling(self.sib, v)
            if msg:
                self._fail(msg)

        def teardown(self):
            if self.p is not None:
                res.note(
                    (self.start, repr(self.history)),
                    self.nontrivial,
                    klass=f"steps{min(len(self.history) // 5 * 5, 30)}",
                    sample={"start": self.start, "history": [list(map(str, s)) for s in self.history]},
                )

    return Edits


def shards(tier):
    per = 300 if tier == "quick" else 15000
    return [{"kind": "machine", "n": per, "steps": 30, "idx": i} for i in range(16)]


def run_shard(spec, seed):
    from vlib.runner import run_machine

    res = ShardResult()
    holder = {}
    run_machine(_machine(res, holder), holder, res, seed, spec["n"], spec["steps"])
    return res

"""C01  Analysis is inert: inspecting a pickle never executes any part of it."""
import contextlib
import io
import os
import pickle
import re
import struct
import subprocess
import sys
import zipfile

from vlib import asm, env
from vlib.runner import Failure, HarnessError, ShardResult, h64, hypothesis_search
from vlib import sandbox
from vlib.sandbox import Monitor, Scratch, reset_pickle_bindings

ID = "C01"
LEVEL = "exploration"
RULE = (
    "inputs: (i) pickle.dumps at protocols 0-5 of generated values containing reducing instances "
    "whose callables are os.system / subprocess.Popen / builtins.eval / exec with payloads that "
    "would leave a marker file; (ii) typed-assembler programs whose vocabulary is only dangerous, "
    "canary and not-yet-imported modules, through every global-resolving and call-making opcode; "
    "(iii) byte-level corruptions of both (truncation, bit flips, splices, length tampering); "
    "(iv) coverage-guided atheris fuzzing of raw bytes (empty and seeded corpus). Each input is "
    "run through every analysis entry point (Pickled.load, StackedPickle.load, .ast, ast.unparse, "
    "astunparse, Trace.run, check_safety, is_likely_safe(path), CLI decompile / --trace / "
    "--check-safety [--print-results] [--json-output], polyglot.identify_pytorch_file_format / "
    "find_file_properties, and the same bytes as archive/data.pkl of a zip-format PyTorch file "
    "through PyTorchModelWrapper(force=True).formats/.pickled + check_safety), each allowed to "
    "return or raise (evidence classes `returned:<entry point>` count the returns). Oracle = "
    "independent effect monitor: CPython audit events (exec, compile, pickle.find_class, "
    "marshal.loads, os.system/exec*/posix_spawn/fork, subprocess.Popen, socket.*, ctypes.*, file "
    "removal/rename/mkdir, shutil.*) must be absent; import events and sys.modules additions of "
    "any module named in the input must be absent; no attribute named by the input is looked up "
    "on already-loaded sentinel modules (stdlib-named and not); no file opened for writing and no new/changed "
    "file in the scratch cwd other than the CLI's declared report; no canary marker. "
    "Fresh-process shard: each of is_likely_safe / check_safety / stacked decompile+check / CLI / CLI --check-safety run "
    "in an interpreter that imported only fickling, on files of every kind (torch zip and legacy saves, numpy "
    "pickle and .npy, legacy tar, canary pickle / zip): no module of a package the file names may appear in sys.modules. "
    "Non-trivial = the input names >= 1 dangerous/canary global and parses (or is a corruption "
    "of such an input); distinct = distinct byte strings."
    ' Also: inputs of 1.3-9 MB through a non-seekable stream, 130-400 levels of nesting, names'
    ' that are format templates (with an oracle on object reprs in the CLI / JSON output); the'
    " CLI's report file may only be written by the CLI's own --check-safety run."
)
ASSUMPTIONS = [
    "a warm-up run on benign inputs precedes recording, so fickling's own lazy imports are done",
    "polyglot's recursive property discovery extracts archive members into a temporary directory by "
    "design: for it (shard `archives`: tar / zip archives, nested once, of payload pickles under "
    "hostile member names) writes are allowed only inside the directories tempfile creates during "
    "the call, and nothing may remain afterwards; all other clauses apply unchanged",
    "the monitor is CPython's audit-hook mechanism plus directory/sys.modules deltas; an effect "
    "that raises no audit event and leaves no trace in cwd/sys.modules is not observable",
]

PAYLOAD_STRS = (
    "touch VERIF_PWNED",
    "open('VERIF_PWNED','w').close()",
    "__import__('os').system('touch VERIF_PWNED')",
    "id",
    "VERIF_PWNED",
    "w",
)
DANGEROUS_GLOBS = (
    ("verif_canary", "fire"), ("verif_canary", "Boom"), ("os", "system"), ("posix", "system"),
    ("builtins", "eval"), ("__builtin__", "exec"), ("builtins", "open"), ("builtins", "compile"),
    ("builtins", "__import__"), ("builtins", "getattr"), ("subprocess", "Popen"),
    ("subprocess", "check_output"), ("socket", "create_connection"), ("shutil", "rmtree"),
    ("ftplib", "FTP"), ("smtplib", "SMTP"), ("wave", "open"), ("this", "s"),
    ("nonexistent_mod_xyz", "thing"), ("ctypes", "CDLL"), ("pty", "spawn"),
    ("importlib", "import_module"), ("runpy", "_run_code"), ("os", "remove"), ("os", "mkdir"),
    ("marshal", "loads"), ("pickle", "loads"), ("_pickle", "loads"), ("timeit", "timeit"),
    ("code", "interact"), ("pydoc", "pipepager"), ("sndhdr", "what"), ("builtins", "len"),
    ("builtins", "str"), ("builtins", "int"), ("builtins", "print"), ("builtins", "sorted"),
    ("verif_canary_pkg.sub", "thing"), ("verif_canary_pkg.sub.deeper", "x"),
    ("xml.etree.cElementTree", "XML"), ("wsgiref.simple_server", "make_server"),
    ("astunparse.printer", "Printer"), ("unittest.mock", "patch"), ("lib2to3.pgen2.driver", "load_grammar"),
    # already-loaded sentinel modules (stdlib-named and not): any attribute resolution is recorded
    ("antigravity", "geohash"), ("nntplib", "NNTP"), ("verif_loaded", "thing"), ("telnetlib", "Telnet"),
    # names that are templates for str.format / %-formatting: nothing may be resolved through them
    ("os.{module.__class__.__mro__}", "system"), ("os.{0.__class__.__mro__}", "x"),
    ("torch.{shortened.__class__.__mro__}", "load"), ("os.{self.__class__.__mro__}", "eval"),
    ("subprocess.{node.__class__.__mro__}", "Popen"), ("os.{module_name.__class__.__mro__}", "system"),
    ("os.%(module)r", "system"),
)  # fmt: skip
# the repr of an object that only exists inside the analysing process has no business in a report
REPR_MARKERS = ("<class '", "<built-in ", "<function ", "<module '", " object at 0x", "<method-wrapper", "<slot wrapper")
SENTINELS = ("antigravity", "nntplib", "verif_loaded", "telnetlib")
FORBIDDEN = ("exec", "compile", "pickle.find_class", "marshal.loads", "os.system", "os.exec",
             "os.posix_spawn", "os.fork", "os.forkpty", "os.spawn", "subprocess.Popen", "socket.",
             "ctypes.", "os.remove", "os.rename", "os.mkdir", "os.rmdir", "os.unlink", "shutil.",
             "os.symlink", "os.link", "os.truncate", "os.chmod", "os.chown", "os.kill",
             "os.putenv", "webbrowser.open", "code.__new__", "function.__new__")  # fmt: skip
# effects that can never be part of fickling's own lazy initialisation: asserted during the
# warm-up too (a once-per-process effect triggered by the first flagged input would otherwise be
# spent there, unseen)
WARM_FORBIDDEN = ("os.system", "os.exec", "os.posix_spawn", "os.fork", "os.forkpty", "os.spawn",
                  "subprocess.Popen", "socket.", "os.kill", "webbrowser.open", "pickle.find_class")  # fmt: skip
_TOKEN = re.compile(rb"[A-Za-z_][A-Za-z0-9_]*(?:\.[A-Za-z_][A-Za-z0-9_]*)*")


class Sys:
    pass


def _payload_class(kind, arg):
    class R:
        def __reduce__(self):
            if kind == "system":
                return (os.system, (arg,))
            if kind == "popen":
                return (subprocess.Popen, (arg,))
            if kind == "eval":
                return (eval, (arg,))
            return (exec, (arg,))

    return R()


def entry_points(data, path, scratch, zpath=None):
    """yield (name, thunk). Every thunk may return or raise."""
    import ast
    import warnings

    import astunparse

    import fickling
    from fickling import cli
    from fickling.analysis import check_safety
    from fickling.fickle import Interpreter, Pickled, StackedPickle
    from fickling.tracing import Trace

    state = {}

    def parse():
        state["p"] = Pickled.load(data)

    def parse_stream():
        Pickled.load(io.BytesIO(data))

    def parse_nonseekable():
        # a pipe / socket: read-only, no seek, no tell
        class Pipe(io.RawIOBase):
            def __init__(self, b):
                self._b = io.BytesIO(b)

            def readable(self):
                return True

            def seekable(self):
                return False

            def readinto(self, buf):
                return self._b.readinto(buf)

        Pickled.load(io.BufferedReader(Pipe(data)))
        StackedPickle.load(io.BufferedReader(Pipe(data)))

    def stacked():
        state["sp"] = StackedPickle.load(data)

    def decompile():
        state["tree"] = state["p"].ast
        for q in state.get("sp", ()):
            q.ast

    def unparse():
        ast.unparse(state["tree"])

    def unparse_legacy():
        astunparse.unparse(state["tree"])

    def trace():
        Trace(Interpreter(Pickled.load(data))).run()

    def safety():
        check_safety(state["p"])
        for q in state.get("sp", ()):
            check_safety(q)

    def summaries():
        p = state["p"]
        p.has_import, p.has_call, p.has_non_setstate_call
        list(p.unsafe_imports())
        list(p.non_standard_imports())

    def likely_safe():
        fickling.is_likely_safe(path)

    def cli_decompile():
        cli.main(["fickling", path])

    def cli_trace():
        cli.main(["fickling", "--trace", path])

    def cli_terminal():
        # the same two commands typed at a terminal (stdin and stdout say they are one)
        class Tty(io.StringIO):
            def isatty(self):
                return True

        from vlib.sandbox import Monitor

        saved = sys.stdin, sys.stdout
        sys.stdin, sys.stdout = Tty(), Tty()
        Monitor.get().deny_spawn = True  # recorded all the same; a pager must not sit there waiting
        try:
            cli.main(["fickling", path])
            cli.main(["fickling", "--trace", path])
        finally:
            Monitor.get().deny_spawn = False
            sys.stdin, sys.stdout = saved

    def cli_check():
        cli.main(["fickling", "--check-safety", path])

    def cli_check_print():
        cli.main(["fickling", "--check-safety", "--print-results", "--json-output", "report.json", path])

    def identify():
        from fickling import polyglot

        polyglot.identify_pytorch_file_format(path)
        polyglot.find_file_properties(path)
        if zpath:
            polyglot.identify_pytorch_file_format(zpath)

    def torch_wrapper():
        # the same bytes as the model pickle of a zip-format PyTorch file
        from fickling.pytorch import PyTorchModelWrapper

        with warnings.catch_warnings():
            warnings.simplefilter("ignore")
            w = PyTorchModelWrapper(zpath, force=True)
            w.formats
            q = w.pickled
            q.ast
            check_safety(q)

    extra = [("polyglot.identify", identify)]
    if zpath:
        extra.append(("PyTorchModelWrapper.pickled", torch_wrapper))
    return extra + [
        ("Pickled.load", parse), ("Pickled.load(stream)", parse_stream),
        ("load(non-seekable stream)", parse_nonseekable),
        ("StackedPickle.load", stacked), ("ast", decompile), ("ast.unparse", unparse),
        ("astunparse", unparse_legacy), ("Trace.run", trace), ("check_safety", safety),
        ("summaries", summaries), ("is_likely_safe", likely_safe), ("cli", cli_decompile),
        ("cli --trace", cli_trace), ("cli at a terminal", cli_terminal), ("cli --check-safety", cli_check),
        ("cli --check-safety --print-results", cli_check_print),
    ]  # fmt: skip


ALLOWED_NEW_FILES = {"safety_results.json", "report.json"}


def observe(data, scratch, warm=False):
    """run every entry point under the monitor. Returns (message|None, info).  warm=True is the
    warm-up pass: imports, compile and exec events belong to fickling's lazy initialisation there
    and are not judged (nor are the cache directories and environment variables a first import of
    numpy/torch sets up); spawned processes, sockets and real unpickling are."""
    mon = Monitor.get()
    reset_pickle_bindings()
    path = os.path.join(scratch.path, "input.pkl")
    with open(path, "wb") as f:
        f.write(data)
    tokens = set()
    for m in _TOKEN.findall(data):
        t = m.decode("latin-1")
        parts = t.split(".")
        for i in range(1, len(parts) + 1):
            tokens.add(".".join(parts[:i]))
    zpath = os.path.join(scratch.path, "input.pt")
    with zipfile.ZipFile(zpath, "w") as z:
        z.writestr("archive/data.pkl", data)
        z.writestr("archive/version", "3\n")
    before_files = scratch.listing()
    sandbox.install_sentinels(SENTINELS)
    mods0 = set(sys.modules)
    reached = set()
    msg = None
    for name, thunk in entry_points(data, path, scratch, zpath):
        mods_before = set(sys.modules)
        sink = io.StringIO()
        del sandbox.RESOLVED[:]
        with mon.watch() as events:
            try:
                with contextlib.redirect_stdout(sink), contextlib.redirect_stderr(sink):
                    thunk()
                reached.add(name)
            except RecursionError:
                pass
            except BaseException as e:  # noqa: BLE001 - entry points may raise anything
                if isinstance(e, KeyboardInterrupt):
                    raise
        evs = list(events)
        shown = sink.getvalue()
        if name.startswith("cli --check-safety --print-results"):
            try:
                with open(os.path.join(scratch.path, "report.json"), errors="replace") as fh:
                    shown += fh.read()
            except OSError:
                pass
        leaked = [m for m in REPR_MARKERS if m in shown and m.encode() not in data]
        if leaked and not warm:
            i = shown.index(leaked[0])
            msg = (f"{name}: the output shows the repr of an object of the analysing process "
                   f"({shown[max(0, i - 60): i + 60]!r}): an attribute path named by the input was resolved")
            break
        if sandbox.RESOLVED:
            msg = f"{name}: attribute(s) {sandbox.RESOLVED[:3]} named by the input were resolved on a loaded module"
            break
        for ev in evs:
            if ev[0] == "import" and not warm:
                mod = ev[1]
                if mod in tokens or mod.split(".")[0] in tokens:
                    msg = f"{name}: module {mod!r} named by the input was imported"
                    break
        for ev in evs:
            if msg:
                break
            kind = ev[0]
            if kind.startswith(WARM_FORBIDDEN if warm else FORBIDDEN):
                msg = f"{name}: audit event {ev!r}"
                break
            if kind == "open":
                target, mode = ev[1], ev[2]
                writing = isinstance(mode, str) and any(c in mode for c in "wax+")
                inside = isinstance(target, str) and os.path.abspath(target).startswith(scratch.path)
                base = os.path.basename(target) if isinstance(target, str) else None
                # only the CLI's own --check-safety run may write its (declared) report file
                allowed = ALLOWED_NEW_FILES if name.startswith("cli --check-safety") else ()
                if writing and not (inside and base in allowed):
                    msg = f"{name}: opened {target!r} with mode {mode!r}"
                    break
        if msg:
            break
        new_mods = [m for m in set(sys.modules) - mods_before if m in tokens or m.split(".")[0] in tokens]
        if new_mods and not warm:
            msg = f"{name}: sys.modules gained {sorted(new_mods)} named by the input"
            for m in new_mods:
                sys.modules.pop(m, None)
            break
    after_files = scratch.listing()
    if msg is None:
        for fn, meta in after_files.items():
            if fn in ("input.pkl", "input.pt"):
                if before_files.get(fn) != meta:
                    msg = "the input file was modified"
                continue
            if fn in ALLOWED_NEW_FILES:
                continue
            if before_files.get(fn) != meta:
                msg = f"file {fn!r} appeared or changed in the working directory"
                break
    scratch.wipe()
    reset_pickle_bindings()
    # do not let an import caused by this input hide the same import for the next input
    for m in [m for m in sys.modules if m not in mods0 and (m in tokens or m.split(".")[0] in tokens)]:
        sys.modules.pop(m, None)
    return msg, reached


ARCHIVE_NAMES = ("ok.pkl", "../evil.pkl", "../../evil2.pkl", "sub/x.pkl", "sub/../../up.pkl", "/abs_evil.pkl",
                 "./dot.pkl", "a/b/c/deep.pkl", "evil\\..\\win.pkl", "data.pkl", "pickle")  # fmt: skip
_FS_MUTATORS = ("os.remove", "os.rename", "os.mkdir", "os.rmdir", "os.unlink", "shutil.", "os.symlink",
                "os.link", "os.truncate", "os.chmod", "os.chown")  # fmt: skip


def build_archive(kind, members):
    """bytes of a tar / plain zip whose members are (name, content bytes)"""
    import tarfile

    buf = io.BytesIO()
    if kind == "tar":
        with tarfile.open(fileobj=buf, mode="w", format=tarfile.PAX_FORMAT) as t:
            for name, content in members:
                ti = tarfile.TarInfo(name)
                ti.size = len(content)
                t.addfile(ti, io.BytesIO(content))
    else:
        import warnings

        with warnings.catch_warnings():
            warnings.simplefilter("ignore")  # duplicate member names are part of the domain
            with zipfile.ZipFile(buf, "w") as z:
                for name, content in members:
                    z.writestr(zipfile.ZipInfo(name), content)
    return buf.getvalue()


def observe_archive(blob, scratch):
    """polyglot's recursive property discovery unpacks archive members into a temporary directory by
    design; everything else in the statement still binds it: nothing named by the input (a member
    name is input) decides where a file is written, nothing is left behind, nothing is imported,
    resolved, unpickled or spawned.  Returns message|None."""
    import tempfile

    from fickling import polyglot

    mon = Monitor.get()
    path = os.path.join(scratch.path, "input.bin")
    with open(path, "wb") as f:
        f.write(blob)
    tmp = os.path.join(scratch.path, "tmp")
    os.makedirs(tmp, exist_ok=True)
    old_tmp = tempfile.tempdir
    tempfile.tempdir = tmp
    before = scratch.listing()
    sink = io.StringIO()
    try:
        with mon.watch() as events:
            try:
                with contextlib.redirect_stdout(sink), contextlib.redirect_stderr(sink):
                    polyglot.find_file_properties_recursively(path)
            except RecursionError:
                pass
            except BaseException as e:  # noqa: BLE001
                if isinstance(e, KeyboardInterrupt):
                    raise
        evs = list(events)
    finally:
        tempfile.tempdir = old_tmp
    owned = []  # directories tempfile created for this call
    cleaning = False
    msg = None
    for ev in evs:
        kind = ev[0]
        if kind == "os.mkdir" and isinstance(ev[1], str) and os.path.dirname(os.path.abspath(ev[1])) == tmp:
            owned.append(os.path.abspath(ev[1]) + os.sep)
            continue

        def inside(p):
            if isinstance(p, bytes):
                p = os.fsdecode(p)
            return isinstance(p, str) and any(os.path.abspath(p).startswith(o) or os.path.abspath(p) + os.sep == o for o in owned)

        if kind == "shutil.rmtree" and inside(ev[1]):
            cleaning = True
            continue
        if cleaning and kind in ("os.remove", "os.rmdir", "os.unlink") and isinstance(ev[1], str) \
                and not os.path.isabs(ev[1]) and len(ev) > 2 and isinstance(ev[2], int):
            continue  # rmtree of an owned directory works relative to a directory descriptor
        if kind.startswith(_FS_MUTATORS):
            if not all(inside(a) for a in ev[1:] if isinstance(a, (str, bytes)) and a):
                msg = f"file-system change outside the call's own temporary directory: {ev!r}"
                break
            continue
        if kind.startswith(WARM_FORBIDDEN):
            msg = f"audit event {ev!r}"
            break
        if kind == "open":
            target, mode = ev[1], ev[2]
            if isinstance(mode, str) and any(c in mode for c in "wax+") and not inside(target):
                msg = f"opened {target!r} with mode {mode!r} (outside the call's own temporary directory)"
                break
    after = scratch.listing()
    if msg is None and after != before:
        extra = sorted(set(after) - set(before)) or sorted(k for k in after if after[k] != before.get(k))
        msg = f"files left behind or changed after the call: {extra[:4]}"
    scratch.wipe()
    return msg


def judge_archive(kind, members, scratch):
    blob = build_archive(kind, members)
    msg = observe_archive(blob, scratch)
    if msg:
        case = {"archive": kind, "members": [[n, c.hex()] for n, c in members]}
        return Failure(case, f"recursive property discovery of a {kind} with members {[n for n, _ in members]} had an effect: {msg}")
    return None


def _big(n, payload, where):
    blob = b"B" + struct.pack("<I", n) + b"x" * n + b"0"
    return blob + payload if where == "before" else payload[:-1] + b"0" + blob + b"N."


def _deep(d, kind):
    if kind == "tuple":
        return b"cos\nsystem\n0N" + b"\x85" * d + b"."
    return b"(" * d + b"l" * d + b"."


# deeply nested values (well inside and around the interpreter's recursion limit)
DEEP_INPUTS = tuple(_deep(d, k) for d in (130, 150, 200, 280, 400) for k in ("tuple", "list"))
BIG_INPUTS = (
    _big(1_300_000, b"cos\nsystem\n(S'touch VERIF_PWNED'\ntR.", "before"),
    _big(1_300_000, b"cverif_canary\nfire\n(S'x'\ntR.", "after"),
    _big(9_000_000, b"cbuiltins\neval\n(S'1+1'\ntR.", "before"),
    _big(1_300_000, b"cos\nsystem\n(S'x'\ntR", "before"),  # truncated after a large prefix
)


# files shaped like torch's legacy serialisation (a stack of pickles: magic number, protocol
# version, system info, the object, the storage keys), with globals named in the header pickles
_MAGIC2 = b"\x80\x02\x8a\nl\xfc\x9cF\xf9 j\xa8P\x19."
STACKED_INPUTS = (
    b"cverif_canary\nfire\nI1\n." + b"I1001\n." + b"}." + b"N.",
    b"cverif_canary\nfire\nL119547037146038801333356L\n." + b"I1001\n." + b"(dp0\n." + b"N." + b"(lp0\n.",
    b"cos\nsystem\nS'touch VERIF_PWNED'\n." + b"I1001\n." + b"}." + b"N.",
    b"cverif_canary\nfire\nI1\nI2\nI3\n." + b"N." + b"N.",
    _MAGIC2 + b"\x80\x02M\xe9\x03." + b"\x80\x02}q\x00." + b"cverif_canary\nfire\n(S'x'\ntR." + b"\x80\x02]q\x00.",
    _MAGIC2 + b"cverif_canary\nfire\nI1001\n." + b"\x80\x02}q\x00." + b"N.",
    b"\x80\x02cverif_canary\nfire\nK\x01." + b"\x80\x02M\xe9\x03." + b"\x80\x02}q\x00." + b"N.",
    # a program of more lines than a screen has
    b"".join(b"ccollections\nOrderedDict\n)R0" for _ in range(60)) + b"cverif_canary\nfire\n(S'x'\ntR.",
)


def judge(data, scratch):
    msg, reached = observe(data, scratch)
    if msg:
        return Failure({"hex": data.hex()}, f"analysis of {data[:120]!r} had an effect: {msg}"), reached
    return None, reached


def replay(case):
    if "fresh" in case:
        entry, label = case["fresh"]
        with Scratch("c01") as scratch:
            for lab, path, named in fresh_inputs(scratch):
                if lab == label:
                    msg = observe_fresh(entry, path, named)
                    return Failure(case, msg) if msg else None
        return None
    with Scratch("c01") as scratch:
        if "big" in case:
            _warmup(scratch)
            return judge(BIG_INPUTS[case["big"]], scratch)[0]
        if "archive" in case:
            _warmup(scratch)
            return judge_archive(case["archive"], [(n, bytes.fromhex(c)) for n, c in case["members"]], scratch)
        data = bytes.fromhex(case["hex"])
        if case.get("warm"):
            # a once-per-process effect: judge the input as the first one of this process
            observe(pickle.dumps([1, "a", {2: (3.5, b"x")}, {4}, frozenset([5])], 4), scratch, warm=True)
            _WARM["first"] = False
            msg, _ = observe(data, scratch, warm=True)
            return Failure(case, f"analysis of {data[:120]!r} (first input of a fresh process) had an effect: {msg}") if msg else None
        f = _warmup(scratch)
        return f or judge(data, scratch)[0]


_WARM = {"first": True}


def _warmup(scratch):
    for d in (pickle.dumps([1, "a", {2: (3.5, b"x")}, {4}, frozenset([5])], 4), b"cos\nsystem\n(S'x'\ntR.",
              b"garbage", pickle.dumps({"k": [1, 2]}, 0), b"(cos\nsystem\nS'x'\no.", b"Vtext\n.",
              b"\x80\x02cbuiltins\neval\nX\x01\x00\x00\x001\x85R."):  # fmt: skip
        msg, _ = observe(d, scratch, warm=True)
        first, _WARM["first"] = _WARM["first"], False
        if msg and not first:
            # the very first (benign, plain-data) input absorbs whatever fickling and its
            # dependencies do once per process regardless of the input (importing torch runs
            # ldconfig); from the second input on an effect is a consequence of the content
            return Failure({"hex": d.hex(), "warm": True},
                           f"analysis of {d[:120]!r} (first inputs of a fresh process) had an effect: {msg}")  # fmt: skip
    return None


def _names_dangerous(data):
    return any(m.encode() in data for m, _ in DANGEROUS_GLOBS)


def _input_strategy():
    from hypothesis import strategies as st

    from vlib import values

    prof = asm.full_profile(
        DANGEROUS_GLOBS, unique_attr_names=False, no_mutation_after_capture=False, acyclic=False
    )
    prof.strs = tuple(prof.strs) + PAYLOAD_STRS
    progs = asm.programs(prof, max_len=20).map(lambda p: p.data)

    payload = st.tuples(
        st.sampled_from(["system", "popen", "eval", "exec"]), st.sampled_from(PAYLOAD_STRS[:3])
    ).map(lambda t: _payload_class(*t))
    nat_vals = st.recursive(
        st.one_of(payload, payload, values.scalars()),
        lambda ch: st.one_of(
            st.lists(ch, max_size=3),
            st.lists(ch, max_size=3).map(tuple),
            st.dictionaries(st.sampled_from(["a", "b", 1]), ch, max_size=3),
        ),
        max_leaves=5,
    )
    nat = st.tuples(nat_vals, st.sampled_from(range(6))).map(lambda t: _dumps(*t))
    base = st.one_of(progs, nat)

    @st.composite
    def corrupted(draw):
        b = bytearray(draw(base))
        kind = draw(st.sampled_from(["truncate", "flip", "splice", "length", "insert", "stack"]))
        if not b:
            return bytes(b)
        if kind == "truncate":
            return bytes(b[: draw(st.integers(0, len(b)))])
        if kind == "flip":
            for _ in range(draw(st.integers(1, 3))):
                i = draw(st.integers(0, len(b) - 1))
                b[i] ^= 1 << draw(st.integers(0, 7))
            return bytes(b)
        if kind == "splice":
            other = draw(base)
            i = draw(st.integers(0, len(b)))
            j = draw(st.integers(0, len(other)))
            return bytes(b[:i]) + other[j:]
        if kind == "length":
            i = draw(st.integers(0, len(b) - 1))
            b[i] = draw(st.sampled_from([0, 1, 0x7F, 0x80, 0xFF]))
            return bytes(b)
        if kind == "insert":
            i = draw(st.integers(0, len(b)))
            return bytes(b[:i]) + draw(st.binary(min_size=1, max_size=4)) + bytes(b[i:])
        return bytes(b) + draw(base)

    return st.one_of(
        base.map(lambda d: (d, "wellformed")), corrupted().map(lambda d: (d, "corrupted"))
    )


def _dumps(v, proto):
    try:
        return pickle.dumps(v, protocol=proto)
    except Exception:  # noqa: BLE001
        return b"N."


FRESH_ENTRIES = ("is_likely_safe", "check_safety", "stacked+ast", "cli", "cli --check-safety")


def fresh_inputs(scratch):
    """(label, path, module roots the file names) - files of every kind the library is pointed at"""
    import tarfile
    import warnings
    import zipfile

    import numpy
    import torch

    out = []

    def add(label, blob_or_writer, named):
        path = os.path.join(scratch.path, label)
        if callable(blob_or_writer):
            blob_or_writer(path)
        else:
            with open(path, "wb") as f:
                f.write(blob_or_writer)
        out.append((label, path, named))

    with warnings.catch_warnings():
        warnings.simplefilter("ignore")
        add("model_zip.pt", lambda p: torch.save({"w": torch.zeros(2)}, p), ["torch"])
        add("model_legacy.pt", lambda p: torch.save({"w": torch.zeros(2)}, p, _use_new_zipfile_serialization=False), ["torch"])
    add("names_torch.pkl", b"ctorch\nload\n.", ["torch"])
    add("array.pkl", pickle.dumps(numpy.arange(3), 2), ["numpy"])
    add("array.npy", lambda p: numpy.save(p, numpy.array([{"a": 1}], dtype=object), allow_pickle=True), ["numpy"])
    add("canary.pkl", b"cverif_canary\nfire\n(S'x'\ntR.", ["verif_canary"])

    def canary_zip(p):
        with zipfile.ZipFile(p, "w") as z:
            z.writestr("archive/data.pkl", b"cverif_canary\nfire\n(S'x'\ntR.")
            z.writestr("archive/version", b"3\n")

    add("canary_zip.pt", canary_zip, ["verif_canary"])

    def torch_tar(p):
        with tarfile.open(p, "w") as t:
            for name, blob in (("pickle", b"ctorch\nload\n."), ("storages", b"N."), ("tensors", b"N.")):
                ti = tarfile.TarInfo(name)
                ti.size = len(blob)
                t.addfile(ti, io.BytesIO(blob))

    add("legacy.tar", torch_tar, ["torch"])
    return out


def observe_fresh(entry, path, named):
    """None or message: run one entry point on one file in a fresh interpreter; no module the file
    names may be imported by it"""
    import json
    import subprocess
    import sys

    from vlib import env

    child = os.path.join(os.path.dirname(os.path.abspath(__file__)), "c01_fresh.py")
    pr = subprocess.run([sys.executable, child, env.REPO, env.HELPERS, entry, path], capture_output=True, text=True,
                        cwd=os.path.dirname(path), timeout=900)  # fmt: skip
    if pr.returncode != 0 or not pr.stdout.strip():
        raise RuntimeError(f"fresh child failed ({pr.returncode}): {pr.stderr[-400:]}")
    doc = json.loads(pr.stdout.strip().splitlines()[-1])
    bad = sorted(m for m in doc["new"] if m.split(".")[0] in named and m.split(".")[0] not in doc["before_roots"])
    if bad:
        return (f"{entry} on {os.path.basename(path)} ({doc['outcome']}) in a fresh interpreter imported "
                f"{len(bad)} modules of the packages the file names, e.g. {bad[:4]}")
    return None


def shards(tier):
    per = 200 if tier == "quick" else 4000
    out = [{"kind": "structured", "n": per, "idx": i} for i in range(12)]
    out += [{"kind": "cells", "tier": tier, "part": i, "nparts": 4} for i in range(4)]
    runs = 40000 if tier == "quick" else 1500000
    out += [{"kind": "atheris", "runs": runs, "corpus": c, "idx": i}
            for i, c in enumerate(["empty", "seeded"])]  # fmt: skip
    if tier != "quick":
        out += [{"kind": "atheris", "runs": runs, "corpus": "seeded", "idx": 2 + i} for i in range(6)]
    out += [{"kind": "archives", "n": 60 if tier == "quick" else 2000, "idx": i} for i in range(4)]
    out += [{"kind": "fresh", "entry": e} for e in FRESH_ENTRIES]
    return out


def run_shard(spec, seed):
    res = ShardResult()
    if spec["kind"] == "fresh":
        with Scratch("c01") as scratch:
            for label, path, named in fresh_inputs(scratch):
                msg = observe_fresh(spec["entry"], path, named)
                res.note((spec["entry"], label), True, klass=["fresh-process", "fresh:" + spec["entry"]],
                         sample={"fresh": [spec["entry"], label]})
                if msg:
                    res.failures.append(Failure({"fresh": [spec["entry"], label]}, msg))
                    break
        return res
    if spec["kind"] == "archives":
        from hypothesis import strategies as st

        payloads = st.sampled_from([
            b"cos\nsystem\n(S'touch VERIF_PWNED'\ntR.", b"cverif_canary\nfire\n(S'x'\ntR.",
            pickle.dumps([1, 2, "a"], 2), b"garbage", b"", b"cbuiltins\neval\n(S'1+1'\ntR.",
        ])  # fmt: skip
        leaf = st.tuples(st.sampled_from(ARCHIVE_NAMES), payloads)

        @st.composite
        def archive(draw, depth=0):
            kind = draw(st.sampled_from(["tar", "zip"]))
            members = draw(st.lists(leaf, min_size=1, max_size=4))
            if depth < 1 and draw(st.booleans()):
                ik, im = draw(archive(depth=depth + 1))
                members.append((draw(st.sampled_from(["inner.bin", "../inner.bin", "sub/inner.tar"])), build_archive(ik, im)))
            return kind, members

        with Scratch("c01") as scratch:
            f = _warmup(scratch)
            if f is not None:
                res.failures.append(f)
                return res
            # input-independent first-use effects of the archive path (tarfile/zipfile imports)
            observe_archive(build_archive("tar", [("ok.pkl", b"N.")]), scratch)
            observe_archive(build_archive("zip", [("ok.pkl", b"N.")]), scratch)

            def body(case):
                kind, members = case
                f = judge_archive(kind, members, scratch)
                hostile = any(n.startswith(("..", "/")) or "/../" in n for n, _ in members)
                res.note(repr(case), hostile, klass=["archive-" + kind, "hostile-member-name" if hostile else "plain-names"],
                         sample={"archive": kind, "members": [n for n, _ in members]})  # fmt: skip
                return f

            hypothesis_search(archive(), body, seed, spec["n"], res, batch=500)
        return res
    if spec["kind"] == "structured":
        with Scratch("c01") as scratch:
            f = _warmup(scratch)
            if f is not None:
                res.failures.append(f)
                return res

            if spec["idx"] < 2:
                # inputs larger than any in-memory buffering threshold (1.25 MiB and 9 MiB)
                for big in BIG_INPUTS[spec["idx"]::2]:
                    f, reached = judge(big, scratch)
                    res.note(None, True, klass=["big-input"] + [f"returned:{n}" for n in sorted(reached)],
                             sample={"big": len(big), "head": big[:60].hex()})  # fmt: skip
                    if f is not None:
                        f.case = {"big": BIG_INPUTS.index(big)}
                        res.failures.append(f)
                        return res

            if spec["idx"] == 4:
                for stacked in STACKED_INPUTS:
                    f, reached = judge(stacked, scratch)
                    res.note(stacked, True, klass=["legacy-layout"] + [f"returned:{n}" for n in sorted(reached)],
                             sample={"stacked": stacked.hex()})  # fmt: skip
                    if f is not None:
                        res.failures.append(f)
                        return res

            if spec["idx"] in (2, 3):
                for deep in DEEP_INPUTS[spec["idx"] - 2::2]:
                    f, reached = judge(deep, scratch)
                    res.note(deep, True, klass=["deep-nesting"] + [f"returned:{n}" for n in sorted(reached)],
                             sample={"deep": len(deep), "head": deep[:40].hex()})  # fmt: skip
                    if f is not None:
                        res.failures.append(f)
                        return res

            def body(case):
                data, kind = case
                f, reached = judge(data, scratch)
                nt = _names_dangerous(data) and ("ast" in reached or kind == "corrupted")
                res.note(
                    data,
                    nt,
                    klass=[kind, "decompiled" if "ast" in reached else "rejected-before-decompile"]
                    + [f"returned:{n}" for n in sorted(reached)],
                    sample={"hex": data.hex(), "kind": kind},
                )
                return f

            hypothesis_search(_input_strategy(), body, seed, spec["n"], res, batch=500)
        return res
    if spec["kind"] == "cells":
        from vlib import cells

        kw = {}
        if spec["tier"] == "quick":
            kw = dict(callees=("global",), disposals=("result",), framings=("bare",))
        else:
            kw = dict(disposals=("result", "pop", "build_target", "memo"), framings=("bare", "proto4_frame"))
        with Scratch("c01") as scratch:
            f = _warmup(scratch)
            if f is not None:
                res.failures.append(f)
                return res
            n = 0
            for i, cell in enumerate(cells.all_cells(list(DANGEROUS_GLOBS), **kw)):
                if i % spec["nparts"] != spec["part"]:
                    continue
                cell = dict(cell, arg=PAYLOAD_STRS[i % 3])
                try:
                    data = cells.build(cell)
                except cells.Skip:
                    continue
                f, reached = judge(data, scratch)
                n += 1
                res.note(None, "ast" in reached, klass=["cell"] + [f"returned:{n}" for n in sorted(reached)], sample={"cell": cell, "hex": data.hex()})
                if f is not None:
                    f.case["cell"] = cell
                    res.failures.append(f)
                    break
            res.extra["product_cells"] = n
        return res
    return _atheris_shard(spec, seed, res)


def _atheris_shard(spec, seed, res):
    try:
        sys.path.insert(0, env.DEPS)
        import atheris  # noqa: F401
    except Exception:  # noqa: BLE001
        res.info["atheris"] = "unavailable in this environment; byte fuzzing skipped"
        return res
    with Scratch(f"c01-fz{spec['idx']}") as scratch:
        corpus = os.path.join(scratch.path, "corpus")
        os.makedirs(corpus)
        if spec["corpus"] == "seeded":
            seeds = [
                b"cos\nsystem\n(S'touch VERIF_PWNED'\ntR.",
                b"(cos\nsystem\nS'touch VERIF_PWNED'\no.",
                b"\x80\x04\x8c\x02os\x8c\x06system\x93\x8c\x11touch VERIF_PWNED\x85R.",
                b"(S'touch VERIF_PWNED'\nios\nsystem\n.",
                b"cverif_canary\nfire\n)R.",
                b"cverif_canary\nBoom\n)\x81}b.",
                pickle.dumps([1, "a", {2: (3.5, b"x")}], 2),
                pickle.dumps({"k": {1, 2}}, 4),
            ]
            for i, s in enumerate(seeds):
                with open(os.path.join(corpus, f"seed{i}"), "wb") as f:
                    f.write(s)
        work = os.path.join(scratch.path, "work")
        os.makedirs(work)
        e = dict(os.environ)
        e["VERIF_REPO"] = env.REPO
        e["C01_FUZZ_WORK"] = work
        e["PYTHONPATH"] = os.pathsep.join([env.VERIF_ROOT, env.DEPS, e.get("PYTHONPATH", "")])
        cmd = [
            sys.executable, os.path.join(env.VERIF_ROOT, "checks", "c01_fuzz.py"),
            f"-runs={spec['runs']}", f"-seed={(seed % 2**31) or 1}", "-max_len=160",
            "-timeout=20", "-rss_limit_mb=4096", f"-artifact_prefix={work}/", corpus,
        ]  # fmt: skip
        p = subprocess.run(cmd, capture_output=True, env=e, cwd=work, timeout=3600)
        err = p.stderr.decode("latin-1", "replace")
        m = re.findall(r"stat::number_of_executed_units:\s*(\d+)", err)
        execs = int(m[-1]) if m else 0
        if not m:
            m2 = re.findall(r"#(\d+)\s+DONE", err)
            execs = int(m2[-1]) if m2 else 0
        cov = re.findall(r"cov: (\d+)", err)
        res.evaluations += execs
        res.extra["atheris_execs"] = execs
        res.info[f"atheris_cov_{spec['corpus']}"] = int(cov[-1]) if cov else None
        report = os.path.join(work, "violation.txt")
        crashes = [f for f in os.listdir(work) if f.startswith(("crash-", "timeout-", "oom-"))]
        if os.path.exists(report):
            with open(report) as f:
                hexdata, msg = f.read().split("\n", 1)
            res.failures.append(
                Failure({"hex": hexdata}, f"atheris: analysis had an effect: {msg.strip()}")
            )
        elif p.returncode != 0 and crashes:
            # a crash that is not a reported effect: fuzz target fault / timeout -> harness error
            raise HarnessError(f"atheris target crashed without an effect report: {err[-1500:]}")
        elif p.returncode != 0:
            raise HarnessError(f"atheris run failed ({p.returncode}): {err[-1500:]}")
        # corpus entries found by the fuzzer that parse: non-trivial evidence
        n_nt = 0
        for fn in sorted(os.listdir(corpus)):
            with open(os.path.join(corpus, fn), "rb") as f:
                d = f.read()
            if _names_dangerous(d) or b"c" in d:
                n_nt += 1
                res.nontrivial.add(h64(d))
                if len(res.samples) < 3:
                    res.samples.append({"atheris_corpus": d.hex()})
        res.extra["atheris_corpus_size"] = len(os.listdir(corpus))
    return res

"""C17  Format identification follows the documented table and is read-only; polyglot hygiene."""
import contextlib
import hashlib
import io
import itertools
import os
import pickle
import shutil
import tarfile
import zipfile

from vlib.runner import Failure, ShardResult, hypothesis_search
from vlib.sandbox import Scratch, reset_pickle_bindings

ID = "C17"
LEVEL = "exploration"
RULE = (
    "(a) exhaustively, all 32 subsets of the marker members {data.pkl, constants.pkl, version, "
    "model.json, attributes.pkl} x placement (archive root / one directory deep) x leading junk "
    "(none / some) x trailing data (none / two pickles / a tar) = 384 synthetic files; (b) real "
    "files: torch.save zip and legacy, torch.jit.save, legacy-tar mock, model-archive-like zip, "
    "random zip, plain pickle, garbage, plus Hypothesis-generated variations (extra members, "
    "member order); (c) all ordered pairs of (b) as create_polyglot inputs, incl. pairs for which "
    "no polyglot exists; (d) crash points: every polyglot-producing pair x an OSError injected at "
    "the 1st/2nd/3rd call of shutil.copy / ZipFile.extract / ZipFile.write / "
    "open(..., 'ab') made by create_polyglot. Oracle: identification gives the same list twice and on a renamed copy, "
    "leaves the file's sha256 and the directory listing unchanged; for zip-at-offset-0 files the "
    "zip-family formats match a table written from the README (TorchScript v1.4 <=> data+constants+"
    "version, v1.3 <=> data+constants, v1.1 <=> model.json+attributes, PyTorch v1.3 <=> data; v1.0 "
    "=> model.json, and model.json+constants => v1.0; more specific before more general); "
    "torch.load success => 'PyTorch v1.3' reported. Polyglots: inputs' sha256 unchanged, "
    "directory listing afterwards == before + requested output whether the call returned or "
    "raised, and on success the output is identified as each format the construction combines. "
    "Non-trivial = marker subset of size 2-4, or a pair for which no polyglot exists; distinct = "
    "distinct files / pairs."
    ' Also: marker members under dot-folders / dot-file names; the non-zip rows of the documented'
    ' table asserted on real files; every marker subset rewritten in place with the same length'
    ' and timestamps; a plain zip identified before and after a model-archive-like zip with the'
    ' same markers.'
)
ASSUMPTIONS = [
    "cells where the README ('ZIP file with model.json') and the implementation's own corruption "
    "rule disagree (model.json without constants.pkl) are asserted only one-sidedly for "
    "TorchScript v1.0",
    "installed torch's serialization reader is the arbiter of 'PyTorch's own zip loader accepts'",
]

MARKERS = ("data.pkl", "constants.pkl", "version", "model.json", "attributes.pkl")
ZIP_FAMILY = ("TorchScript v1.4", "TorchScript v1.3", "TorchScript v1.0", "TorchScript v1.1", "PyTorch v1.3")


def sha(path):
    with open(path, "rb") as f:
        return hashlib.sha256(f.read()).hexdigest()


def listing(root):
    out = []
    for d, _dirs, files in os.walk(root):
        for f in files:
            out.append(os.path.relpath(os.path.join(d, f), root))
        for x in _dirs:
            out.append(os.path.relpath(os.path.join(d, x), root) + "/")
    return sorted(out)


def quiet_identify(path):
    from fickling import polyglot

    # the documented flags only add printing: the list that comes back is the same
    with contextlib.redirect_stdout(io.StringIO()), contextlib.redirect_stderr(io.StringIO()):
        plain = polyglot.identify_pytorch_file_format(path)
        plain = list(plain) if plain is not None else plain
        for kw in ({"print_results": True}, {"print_properties": True}, {"print_properties": True, "print_results": True}):
            other = polyglot.identify_pytorch_file_format(path, **kw)
            if (list(other) if other is not None else other) != plain:
                raise FlagsChangeResult(f"identify_pytorch_file_format(path) gives {plain} but with {kw} it gives {other}")
    return plain


class FlagsChangeResult(Exception):
    pass


def _quiet_identify_plain(path):
    from fickling import polyglot

    with contextlib.redirect_stdout(io.StringIO()), contextlib.redirect_stderr(io.StringIO()):
        return polyglot.identify_pytorch_file_format(path)


# "version set at 2 or higher" (README): records the documented rule accepts, in the spellings
# torch itself reads (an integer, optional newline)
VERSION_RECORDS = (b"3\n", b"2\n", b"10\n", b"12")


def make_synthetic(path, subset, placement, junk, trailing, version=b"3\n"):
    buf = io.BytesIO()
    with zipfile.ZipFile(buf, "w") as z:
        prefix = {"dir": "archive/", "dotdir": ".ckpt/", "macdir": "__MACOSX_model/"}.get(placement, "")
        for m in MARKERS:
            if m in subset:
                if m == "version":
                    body = version
                elif m.endswith(".pkl"):
                    body = pickle.dumps([1, 2, 3], protocol=2)
                else:
                    body = b'{"protoVersion": "2"}'
                z.writestr(prefix + m, body)
        z.writestr(prefix + "other.txt", b"x")
    data = buf.getvalue()
    if junk:
        data = b"JUNKJUNK" + data
    if trailing == "pickles":
        data += pickle.dumps({"a": 1}) + pickle.dumps([2])
    elif trailing == "tar":
        tb = io.BytesIO()
        with tarfile.open(fileobj=tb, mode="w:") as t:
            info = tarfile.TarInfo("pickle")
            info.size = 3
            t.addfile(info, io.BytesIO(b"abc"))
        data += tb.getvalue()
    with open(path, "wb") as f:
        f.write(data)


def table_check(subset, formats):
    """None or message. `subset` = marker members present; formats = reported list."""
    s = set(subset)
    zf = [f for f in formats if f in ZIP_FAMILY]
    have = set(zf)

    def iff(name, cond):
        if (name in have) != cond:
            return f"{name} {'reported' if name in have else 'not reported'} for members {sorted(s)}"
        return None

    for name, cond in (
        ("TorchScript v1.4", {"data.pkl", "constants.pkl", "version"} <= s),
        ("TorchScript v1.3", {"data.pkl", "constants.pkl"} <= s),
        ("TorchScript v1.1", {"model.json", "attributes.pkl"} <= s),
        ("PyTorch v1.3", "data.pkl" in s),
    ):
        m = iff(name, cond)
        if m:
            return m
    if "TorchScript v1.0" in have and "model.json" not in s:
        return f"TorchScript v1.0 reported without model.json (members {sorted(s)})"
    if {"model.json", "constants.pkl"} <= s and "TorchScript v1.0" not in have:
        return f"TorchScript v1.0 not reported for members {sorted(s)}"
    for a, b in (("TorchScript v1.4", "TorchScript v1.3"), ("TorchScript v1.3", "PyTorch v1.3"),
                 ("TorchScript v1.4", "PyTorch v1.3")):  # fmt: skip
        if a in have and b in have and zf.index(a) > zf.index(b):
            return f"{b} listed before the more specific {a}: {formats}"
    if len(zf) != len(have):
        return f"a format is listed twice: {formats}"
    return None


def check_identification(path, subset=None, junk=False, is_plain_tar=False):
    """determinism + read-only + (for zip-at-offset-0 synthetic files) the table"""
    d = os.path.dirname(path)
    sha0 = sha(path)
    before = listing(d)
    try:
        f1 = quiet_identify(path)
        f2 = quiet_identify(path)
    except Exception as e:  # noqa: BLE001
        return f"identification raised {type(e).__name__}: {e}"
    if f1 != f2:
        return f"two calls disagree: {f1} vs {f2}"
    if sha(path) != sha0:
        return "identification modified the file"
    if listing(d) != before:
        return f"identification changed the directory: {sorted(set(listing(d)) ^ set(before))}"
    copy = os.path.join(d, "renamed_copy.bin")
    shutil.copy(path, copy)
    try:
        f3 = quiet_identify(copy)
    finally:
        os.remove(copy)
    if f3 != f1:
        return f"a renamed copy is identified differently: {f3} vs {f1}"
    if subset is not None and not junk:
        m = table_check(subset, f1)
        if m:
            return m
    if is_plain_tar and "PyTorch v0.1.10" in f1:
        # documented as "stacked pickle files". The pickle test is a loose heuristic by design, so
        # this is asserted only for tar archives built here whose header is no pickle prefix: what
        # their *members* contain says nothing about the file itself
        import pickletools

        with open(path, "rb") as f:
            try:
                for _ in pickletools.genops(f):
                    pass
            except Exception as e:  # noqa: BLE001
                return (f"identified as {f1}, but 'PyTorch v0.1.10' is a file of stacked pickles and this file's bytes do "
                        f"not begin with a pickle ({type(e).__name__}: {e})")
    return None


def check_rewrite(scratch, present, swapped):
    """identification follows the bytes, not the path: a file is identified, then rewritten in
    place by a different zip of the same length and with the same timestamps (one marker member
    renamed to an equally long name), then identified again.  None or message."""
    path = os.path.join(scratch.path, "rewritten.bin")

    def write(names):
        with zipfile.ZipFile(path, "w") as z:
            for nm in names:
                z.writestr(zipfile.ZipInfo("archive/" + nm, date_time=(2020, 1, 1, 0, 0, 0)), b"2\n")

    decoy = "x" + swapped[1:]
    write(present)
    st0 = os.stat(path)
    try:
        f_a = quiet_identify(path)
        write([decoy if nm == swapped else nm for nm in present])
        os.utime(path, ns=(st0.st_atime_ns, st0.st_mtime_ns))
        same_meta = os.stat(path).st_size == st0.st_size
        f_b = quiet_identify(path)
    except Exception as e:  # noqa: BLE001
        return f"identification raised {type(e).__name__}: {e}"
    finally:
        if os.path.exists(path):
            os.remove(path)
    m = table_check(sorted(present), f_a)
    if m:
        return m
    m = table_check(sorted(set(present) - {swapped}), f_b)
    if m:
        return (f"after the file was rewritten in place (same length: {same_meta}, same timestamps) without "
                f"{swapped}: {m}; before the rewrite it was identified as {f_a}")
    return None


def check_pollution(scratch, present):
    """identifying one file must not change what is said about another: a plain torch zip is
    identified, then a model-archive-like zip with the same marker members (plus Python code, JSON
    and weight files), then the plain one again.  None or message."""
    plain = os.path.join(scratch.path, "plain.bin")
    rich = os.path.join(scratch.path, "rich.bin")
    for path, extras in ((plain, ()), (rich, ("handler.py", "config.json", "weights.pt", "MAR-INF/MANIFEST.json"))):
        with zipfile.ZipFile(path, "w") as z:
            for nm in present:
                z.writestr("archive/" + nm, pickle.dumps([nm]) if nm.endswith(".pkl") else b"2\n")
            for nm in extras:
                z.writestr(nm, b"{}" if nm.endswith(".json") else b"x = 1\n")
    try:
        r0 = quiet_identify(plain)
        quiet_identify(rich)
        r1 = quiet_identify(plain)
    except Exception as e:  # noqa: BLE001
        return f"identification raised {type(e).__name__}: {e}"
    finally:
        for p in (plain, rich):
            if os.path.exists(p):
                os.remove(p)
    if r0 != r1:
        return (f"a zip with members {sorted(present)} was identified as {r0}; after another file (same marker "
                f"members plus Python code / JSON / weights) had been identified, the same bytes are {r1}")
    if "PyTorch model archive format" in r1:
        return f"a zip holding only {sorted(present)} (no Python code files) is reported as a model archive: {r1}"
    return table_check(sorted(present), r1)


def torch_accepts(path):
    """does PyTorch's own *zip* loader accept the file? (zip local-file magic at offset 0,
    as torch.serialization requires, and torch.load succeeds)"""
    import torch

    with open(path, "rb") as f:
        if f.read(4) != b"PK\x03\x04":
            return False
    try:
        with contextlib.redirect_stdout(io.StringIO()), contextlib.redirect_stderr(io.StringIO()):
            torch.load(path, weights_only=True)
        return True
    except Exception:  # noqa: BLE001
        return False


# ---------------------------------------------------------------- real files


def make_real(kind, path, variant=0):
    import torch

    torch.manual_seed(variant)
    obj = {"w": torch.randn(2, 2), "n": variant, "l": [torch.zeros(1)]}
    if kind == "zip":
        torch.save(obj, path)
    elif kind == "legacy":
        torch.save(obj, path, _use_new_zipfile_serialization=False)
    elif kind == "jit":
        class M(torch.nn.Module):
            def forward(self, x):
                return x + 1

        with contextlib.redirect_stdout(io.StringIO()), contextlib.redirect_stderr(io.StringIO()):
            torch.jit.save(torch.jit.script(M()), path)
    elif kind == "legacy_tar":
        # the documented layout, and the same four entries in another order / with further members
        names = (("sys_info", "pickle", "storages", "tensors"), ("tensors", "storages", "pickle", "sys_info"),
                 ("sys_info", "pickle", "README", "storages", "notes/extra.txt", "tensors"),
                 ("pickle", "sys_info", "tensors", "storages", "trailer"))[variant % 4]  # fmt: skip
        with tarfile.open(path, mode="w:") as t:
            for name in names:
                body = pickle.dumps({"name": name, "v": variant})
                info = tarfile.TarInfo(name)
                info.size = len(body)
                t.addfile(info, io.BytesIO(body))
    elif kind in ("tar_of_stacked", "legacy_tar_stacked"):
        # a tar whose FIRST member's content is itself a stream of stacked pickles (a legacy
        # checkpoint that was tarred up; a v0.1.1 layout whose sys_info holds several pickles)
        inner = os.path.join(os.path.dirname(path), "inner.tmp")
        torch.save(obj, inner, _use_new_zipfile_serialization=False)
        with open(inner, "rb") as f:
            stacked = f.read()
        os.remove(inner)
        names = ("checkpoint.pth", "notes.txt") if kind == "tar_of_stacked" else ("sys_info", "pickle", "storages", "tensors")
        with tarfile.open(path, mode="w:") as t:
            for i, name in enumerate(names):
                body = stacked if i == 0 else pickle.dumps({"name": name, "v": variant})
                info = tarfile.TarInfo(name)
                info.size = len(body)
                t.addfile(info, io.BytesIO(body))
    elif kind == "mar":
        with zipfile.ZipFile(path, "w") as z:
            z.writestr("MAR-INF/MANIFEST.json", b'{"model": {"modelName": "m"}}')
            z.writestr("model.py", b"class M: pass\n")
            z.writestr("weights.pt", pickle.dumps([variant]))
    elif kind == "random_zip":
        with zipfile.ZipFile(path, "w") as z:
            z.writestr("blob.bin", bytes(range(256)) * (1 + variant))
    elif kind == "pickle":
        with open(path, "wb") as f:
            f.write(pickle.dumps({"plain": [variant, "pickle"]}, protocol=variant % 6))
    elif kind == "garbage":
        with open(path, "wb") as f:
            f.write(b"\x00garbage\xff" * (3 + variant))
    elif kind == "empty":
        open(path, "wb").close()
    else:
        raise ValueError(kind)


REAL_KINDS = ("zip", "legacy", "jit", "legacy_tar", "mar", "random_zip", "pickle", "garbage", "empty",
              "tar_of_stacked", "legacy_tar_stacked")
# rows of the documented table (README "PyTorch polyglots") that are not about zip members
TAR_KINDS = ("legacy_tar", "tar_of_stacked", "legacy_tar_stacked")
DOCUMENTED = {"legacy_tar": "PyTorch v0.1.1", "legacy": "PyTorch v0.1.10", "jit": "TorchScript v1.4",
              "zip": "PyTorch v1.3", "legacy_tar_stacked": "PyTorch v0.1.1"}  # fmt: skip
DOCUMENTED_WHAT = {"legacy_tar": "tar file with sys_info, pickle, storages and tensors",
                   "legacy": "file of stacked pickles (torch.save, legacy serialisation)",
                   "jit": "torch.jit.save archive", "zip": "torch.save archive",
                   "legacy_tar_stacked": "tar file with sys_info, pickle, storages and tensors"}  # fmt: skip
# formats each polyglot construction combines
COMBINES = (
    ({"PyTorch model archive format", "PyTorch v0.1.10"}, None),
    ({"PyTorch v1.3", "TorchScript v1.4"}, None),
    ({"PyTorch model archive format", "PyTorch v0.1.1"}, None),
)


def check_polyglot(kind_a, kind_b, scratch, name_given=True, same_basename=False):
    from fickling import polyglot

    reset_pickle_bindings()
    scratch.wipe()
    os.makedirs(os.path.join(scratch.path, "in"))
    a = os.path.join(scratch.path, "in", f"first_{kind_a}.bin")
    b = os.path.join(scratch.path, "in", f"second_{kind_b}.bin")
    if same_basename:
        # two inputs called the same, in different directories
        os.makedirs(os.path.join(scratch.path, "in", "one"))
        os.makedirs(os.path.join(scratch.path, "in", "two"))
        a = os.path.join(scratch.path, "in", "one", "model.bin")
        b = os.path.join(scratch.path, "in", "two", "model.bin")
    make_real(kind_a, a, 1)
    make_real(kind_b, b, 2)
    sa, sb = sha(a), sha(b)
    fa, fb = quiet_identify(a), quiet_identify(b)
    before = listing(scratch.path)
    out_name = "requested_output.bin" if name_given else None
    outcome = None
    try:
        with contextlib.redirect_stdout(io.StringIO()), contextlib.redirect_stderr(io.StringIO()):
            r = polyglot.create_polyglot(a, b, out_name, print_results=False)
        outcome = ("returned", r)
    except Exception as e:  # noqa: BLE001
        outcome = ("raised", e)
    after = listing(scratch.path)
    if not os.path.exists(a) or not os.path.exists(b):
        return f"create_polyglot({kind_a}, {kind_b}) removed an input file ({outcome[0]})", outcome, fa, fb
    if sha(a) != sa or sha(b) != sb:
        return f"create_polyglot({kind_a}, {kind_b}) modified an input file ({outcome[0]})", outcome, fa, fb
    extra = sorted(set(after) - set(before))
    gone = sorted(set(before) - set(after))
    allowed = {out_name} if name_given else {"polyglot.mar.pt", "polyglot.pt", "polyglot.mar.tar"}
    stray = [x for x in extra if x not in allowed]
    if stray or gone:
        return (
            f"create_polyglot({kind_a}, {kind_b}) {outcome[0]} ({outcome[1]!r}) and left the working "
            f"directory changed: new {stray}, missing {gone}",
            outcome, fa, fb,
        )  # fmt: skip
    if outcome[0] == "returned" and outcome[1]:
        produced = [x for x in extra if x in allowed]
        if len(produced) != 1:
            return f"create_polyglot reported success but produced {produced}", outcome, fa, fb
        got = set(quiet_identify(os.path.join(scratch.path, produced[0])))
        prim = {fa[0] if fa else None, fb[0] if fb else None}
        for combo, _ in COMBINES:
            if combo <= prim and not combo <= got:
                return (
                    f"polyglot of {kind_a}+{kind_b} is identified as {sorted(got)}, missing "
                    f"{sorted(combo - got)}",
                    outcome, fa, fb,
                )  # fmt: skip
    return None, outcome, fa, fb


# (faults in the clean-up primitives themselves - os.remove, shutil.rmtree - are not injected:
# if removal fails the file is still there by definition)
FAULT_POINTS = ("shutil.copy", "zipfile.ZipFile.extract", "zipfile.ZipFile.write", "builtins.open:ab")


class _Fault:
    """raise OSError at the k-th call of one library function made (transitively) by
    create_polyglot - an injected crash point; everything is restored afterwards"""

    def __init__(self, point, k):
        self.point, self.k, self.n, self.fired = point, k, 0, False

    def __enter__(self):
        import builtins
        import shutil as sh
        import zipfile as zf

        self._saved = []

        def wrap(owner, name, pred=None):
            orig = getattr(owner, name)

            def w(*a, **kw):
                if pred is None or pred(*a, **kw):
                    self.n += 1
                    if self.n == self.k:
                        self.fired = True
                        raise OSError(f"injected fault at {self.point} call #{self.k}")
                return orig(*a, **kw)

            self._saved.append((owner, name, orig))
            setattr(owner, name, w)

        if self.point == "shutil.copy":
            wrap(sh, "copy")
        elif self.point == "shutil.rmtree":
            wrap(sh, "rmtree")
        elif self.point == "zipfile.ZipFile.extract":
            wrap(zf.ZipFile, "extract")
        elif self.point == "zipfile.ZipFile.write":
            wrap(zf.ZipFile, "write")
        elif self.point == "builtins.open:ab":
            wrap(builtins, "open", lambda *a, **kw: len(a) > 1 and a[1] == "ab")
        return self

    def __exit__(self, *exc):
        for owner, name, orig in reversed(self._saved):
            setattr(owner, name, orig)


def check_polyglot_fault(kind_a, kind_b, point, k, scratch):
    """create_polyglot with an injected fault: inputs untouched, no temporary files or
    directories left behind (the requested output may exist, possibly partial)"""
    from fickling import polyglot

    reset_pickle_bindings()
    scratch.wipe()
    os.makedirs(os.path.join(scratch.path, "in"))
    a = os.path.join(scratch.path, "in", f"first_{kind_a}.bin")
    b = os.path.join(scratch.path, "in", f"second_{kind_b}.bin")
    make_real(kind_a, a, 1)
    make_real(kind_b, b, 2)
    sa, sb = sha(a), sha(b)
    before = listing(scratch.path)
    with _Fault(point, k) as fault:
        try:
            with contextlib.redirect_stdout(io.StringIO()), contextlib.redirect_stderr(io.StringIO()):
                polyglot.create_polyglot(a, b, "requested_output.bin", print_results=False)
            outcome = "returned"
        except Exception as e:  # noqa: BLE001
            outcome = f"raised {type(e).__name__}"
    if not fault.fired:
        return None, "fault-not-reached"
    after = listing(scratch.path)
    if not os.path.exists(a) or not os.path.exists(b) or sha(a) != sa or sha(b) != sb:
        return f"create_polyglot({kind_a}, {kind_b}) with a fault at {point}#{k} damaged an input ({outcome})", "fault"
    extra = sorted(x for x in set(after) - set(before) if x != "requested_output.bin")
    gone = sorted(set(before) - set(after))
    if extra or gone:
        return (
            f"create_polyglot({kind_a}, {kind_b}) with a fault at {point} call #{k} ({outcome}) left "
            f"the working directory changed: new {extra}, missing {gone}",
            "fault",
        )
    return None, "fault"


def replay(case):
    try:
        return _replay(case)
    except FlagsChangeResult as e:
        return Failure(case, str(e))


def _replay(case):
    if case.get("op") == "fault":
        with Scratch("c17") as scratch:
            m = check_polyglot_fault(case["a"], case["b"], case["point"], case["k"], scratch)[0]
            return Failure(case, m) if m else None
    with Scratch("c17") as scratch:
        if case["op"] == "flags":
            return _flags_replay(scratch)
        if case["op"] == "synthetic":
            p = os.path.join(scratch.path, "syn.bin")
            make_synthetic(p, case["subset"], case["placement"], case["junk"], case["trailing"],
                           case.get("version", "3\n").encode())
            m = check_identification(p, case["subset"], case["junk"])
            return Failure(case, f"synthetic zip {case}: {m}") if m else None
        if case["op"] == "real":
            p = os.path.join(scratch.path, ("real.bin", ".hidden.ckpt.pt", "__MACOSX.pt", "real.bin")[case.get("variant", 0) % 4])
            make_real(case["kind"], p, case.get("variant", 0))
            m = check_identification(p, is_plain_tar=case["kind"] in TAR_KINDS)
            if m is None and torch_accepts(p) and "PyTorch v1.3" not in quiet_identify(p):
                m = "torch.load accepts the file but 'PyTorch v1.3' is not reported"
            want = DOCUMENTED.get(case["kind"])
            if m is None and want and want not in quiet_identify(p):
                m = (f"a {DOCUMENTED_WHAT[case['kind']]} is the documented shape of {want!r} but is identified as "
                     f"{quiet_identify(p)}")  # fmt: skip
            return Failure(case, f"real file {case}: {m}") if m else None
        if case["op"] == "pollution":
            m = check_pollution(scratch, case["present"])
            return Failure(case, f"cross-file {case}: {m}") if m else None
        if case["op"] == "rewrite":
            m = check_rewrite(scratch, case["present"], case["swapped"])
            return Failure(case, f"rewrite in place {case}: {m}") if m else None
        m = check_polyglot(case["a"], case["b"], scratch, case.get("name_given", True), case.get("same_basename", False))[0]
        return Failure(case, m) if m else None


def shards(tier):
    out = [{"kind": "synthetic", "part": i, "nparts": 6} for i in range(6)]
    out += [{"kind": "real", "part": i, "nparts": 2} for i in range(2)]
    out += [{"kind": "pollution"}, {"kind": "rewrite"}]
    out += [{"kind": "pairs", "part": i, "nparts": 6} for i in range(6)]
    out += [{"kind": "variations", "n": 60 if tier == "quick" else 10000, "idx": i} for i in range(2)]
    out += [{"kind": "faults", "part": i, "nparts": 4} for i in range(4)]
    return out


def run_shard(spec, seed):
    try:
        return _run_shard(spec, seed)
    except FlagsChangeResult as e:
        res = ShardResult()
        res.failures.append(Failure({"op": "flags"}, str(e)))
        return res


def _flags_replay(scratch):
    for kind in ("zip", "jit", "legacy", "mar"):
        p = os.path.join(scratch.path, "real.bin")
        make_real(kind, p, 0)
        try:
            quiet_identify(p)
        except FlagsChangeResult as e:
            return Failure({"op": "flags"}, str(e))
        finally:
            os.remove(p)
    return None


def _run_shard(spec, seed):
    import torch

    torch.set_num_threads(1)
    res = ShardResult()
    with Scratch(f"c17-{spec['kind']}") as scratch:
        if spec["kind"] == "synthetic":
            cells = list(itertools.product(
                [c for r in range(6) for c in itertools.combinations(MARKERS, r)],
                ("root", "dir", "dotdir", "macdir"), (False, True), ("none", "pickles", "tar"),
            ))  # fmt: skip
            n = 0
            for i, (subset, placement, junk, trailing) in enumerate(cells):
                if i % spec["nparts"] != spec["part"]:
                    continue
                p = os.path.join(scratch.path, "syn.bin")
                m = None
                for version in (VERSION_RECORDS if "version" in subset else VERSION_RECORDS[:1]):
                    make_synthetic(p, subset, placement, junk, trailing, version)
                    m = check_identification(p, subset, junk)
                    if m is None and not junk and torch_accepts(p) and "PyTorch v1.3" not in quiet_identify(p):
                        m = "torch.load accepts the file but 'PyTorch v1.3' is not reported"
                    n += 1
                    case = {"op": "synthetic", "subset": list(subset), "placement": placement, "junk": junk,
                            "trailing": trailing, "version": version.decode()}  # fmt: skip
                    res.note(None, 2 <= len(subset) <= 4, klass=f"markers{len(subset)}", sample=case)
                    os.remove(p)
                    if m:
                        break
                if m:
                    res.failures.append(Failure(case, f"synthetic zip {case}: {m}"))
                    break
            res.exhaustive = True
            res.extra["synthetic_files"] = n
        elif spec["kind"] == "pollution":
            for k in range(1, len(MARKERS) + 1):
                for present in itertools.combinations(MARKERS, k):
                    m = check_pollution(scratch, list(present))
                    case = {"op": "pollution", "present": list(present)}
                    res.note(None, True, klass="cross-file", sample=case)
                    if m:
                        res.failures.append(Failure(case, f"cross-file {case}: {m}"))
                        return res
            res.exhaustive = True
        elif spec["kind"] == "rewrite":
            for k in range(1, len(MARKERS) + 1):
                for present in itertools.combinations(MARKERS, k):
                    for swapped in present:
                        m = check_rewrite(scratch, list(present), swapped)
                        case = {"op": "rewrite", "present": list(present), "swapped": swapped}
                        res.note(None, len(present) >= 2, klass="rewrite-in-place", sample=case)
                        if m:
                            res.failures.append(Failure(case, f"rewrite in place {case}: {m}"))
                            return res
            res.exhaustive = True
        elif spec["kind"] == "real":
            for i, (kind, variant) in enumerate(itertools.product(REAL_KINDS, range(4))):
                if i % spec["nparts"] != spec["part"]:
                    continue
                # torch names the archive's folder after the file: a dot-file gives a dot-folder
                p = os.path.join(scratch.path, ("real.bin", ".hidden.ckpt.pt", "__MACOSX.pt", "real.bin")[variant % 4])
                make_real(kind, p, variant)
                m = check_identification(p, is_plain_tar=kind in TAR_KINDS)
                acc = torch_accepts(p)
                want = DOCUMENTED.get(kind)
                if m is None and want and want not in quiet_identify(p):
                    m = (f"a {DOCUMENTED_WHAT[kind]} is the documented shape of {want!r} but is identified as "
                         f"{quiet_identify(p)}")  # fmt: skip
                if m is None and acc and "PyTorch v1.3" not in quiet_identify(p):
                    m = "torch.load accepts the file but 'PyTorch v1.3' is not reported"
                case = {"op": "real", "kind": kind, "variant": variant}
                res.note(None, True, klass=[kind, "torch-accepts" if acc else "torch-rejects"],
                         sample={**case, "formats": quiet_identify(p)})  # fmt: skip
                os.remove(p)
                if m:
                    res.failures.append(Failure(case, f"real file {case}: {m}"))
                    break
            res.exhaustive = True
        elif spec["kind"] == "faults":
            # crash points: every polyglot-producing pair x fault point x call index
            combos = [("zip", "jit"), ("jit", "zip"), ("mar", "legacy"), ("legacy", "mar"),
                      ("mar", "legacy_tar"), ("legacy_tar", "mar"), ("zip", "garbage")]  # fmt: skip
            cells = list(itertools.product(combos, FAULT_POINTS, (1, 2, 3)))
            for i, ((a, b), point, k) in enumerate(cells):
                if i % spec["nparts"] != spec["part"]:
                    continue
                m, klass = check_polyglot_fault(a, b, point, k, scratch)
                case = {"op": "fault", "a": a, "b": b, "point": point, "k": k}
                res.note(None, klass == "fault", klass=klass, sample=case)
                if m:
                    res.failures.append(Failure(case, m))
                    break
            res.exhaustive = True
        elif spec["kind"] == "pairs":
            pairs = [(a, b, ng, False) for a, b, ng in itertools.product(REAL_KINDS, REAL_KINDS, (True, False))]
            pairs += [(a, b, True, True) for a, b in (("zip", "jit"), ("jit", "zip"), ("mar", "legacy"), ("legacy", "mar"),
                                                     ("mar", "legacy_tar"), ("legacy_tar", "mar"))]  # fmt: skip
            for i, (a, b, ng, sb) in enumerate(pairs):
                if i % spec["nparts"] != spec["part"]:
                    continue
                m, outcome, fa, fb = check_polyglot(a, b, scratch, ng, sb)
                made = outcome[0] == "returned" and bool(outcome[1])
                case = {"op": "pair", "a": a, "b": b, "name_given": ng, "same_basename": sb}
                res.note(None, not made, klass=["polyglot-made" if made else f"no-polyglot-{outcome[0]}"],
                         sample={**case, "formats": [fa, fb], "outcome": outcome[0]})  # fmt: skip
                if m:
                    res.failures.append(Failure(case, m))
                    break
            res.exhaustive = True
            res.extra["ordered_pairs"] = len(pairs) // spec["nparts"]
        else:
            from hypothesis import strategies as st

            strat = st.tuples(
                st.lists(st.sampled_from(MARKERS), unique=True, max_size=5),
                st.lists(st.sampled_from(["weights.pt", "code.py", "a/b/data.pkl.bak", "model.json.txt",
                                          "x/version", "extra/constants.pkl", "readme.md"]), max_size=3, unique=True),
                st.sampled_from(["root", "dir"]),
                st.permutations(list(range(8))),
            )  # fmt: skip

            def body(case):
                subset, extras, placement, order = case
                p = os.path.join(scratch.path, "var.bin")
                prefix = "archive/" if placement == "dir" else ""
                names = [prefix + m for m in subset] + list(extras)
                names = [names[i % len(names)] for i in order][: len(names)] if names else []
                names = list(dict.fromkeys(names + [prefix + m for m in subset] + list(extras)))
                with zipfile.ZipFile(p, "w") as z:
                    for nm in names:
                        z.writestr(nm, pickle.dumps([nm]) if nm.endswith(".pkl") else b"2\n")
                present = {m for m in MARKERS if any(m in nm for nm in names)}
                m = check_identification(p, sorted(present), False)
                res.note(repr(names), 2 <= len(present) <= 4, klass=f"markers{len(present)}",
                         sample={"members": names})  # fmt: skip
                os.remove(p)
                if m:
                    return Failure({"op": "variation", "members": names}, f"zip with members {names}: {m}")
                return None

            hypothesis_search(strat, body, seed, spec["n"], res, batch=200)
    return res

"""C10  All faces of the safety check agree on the same per-pickle severity."""
import contextlib
import io
import itertools
import json
import operator
import os
import pickle

from vlib import values
from vlib.runner import Failure, ShardResult, hypothesis_search
from vlib.sandbox import Scratch, reset_pickle_bindings

ID = "C10"
LEVEL = "exploration"
RULE = (
    "files holding 1..5 stacked pickles drawn from benign (generated plain values, protocols "
    "0-5) and flagged families (unused variable, non-stdlib import, dangerous import, eval call, "
    "duplicate PROTO, misplaced PROTO; all harmless if executed) x CLI options (--json-output "
    "given / default / unwritable (fault: only 'flagged => non-zero exit' is asserted), "
    "--print-results on / off). Oracle: one severity vector s_i = "
    "check_safety(p_i).severity, ranked by an own table from the documented order; then "
    "max-rank of the findings == s_i and s_i is LIKELY_SAFE iff there are no findings; "
    "is_likely_safe(file) == (rank s_0 == 0); fickling.load(file) raises iff rank s_0 > 0 with "
    "info['severity'] == s_0; CLI exit status (what a real process ends with: low eight bits of main()'s value) == 0 iff all ranks are 0, "
    "also when the pickle arrives in a carrier positioned on it (BytesIO / file / mmap behind other bytes, memoryview "
    "window, descriptor-named or text-mode handle: refused iff the pickle pointed at is flagged, and a returned value is that pickle's), "
    "also for long stacks (255, 256, 257, 512 flagged pickles) run as `python -m fickling` in a real process; the report file parsed as "
    "concatenated JSON documents has k documents whose 'severity' are the s_i in order. Plus, "
    "exhaustively, all 36 ordered severity pairs under <, <=, >, >=, ==, != against integer "
    "comparison. Non-trivial = k >= 2 with mixed verdicts; distinct = distinct (bytes, options)."
    ' Also: the armed standard loader after a (lenient) with-block has come and gone is a face;'
    ' the report check_safety writes itself is read back at every verbosity; PROTO opcodes of'
    ' every version in odd places.'
)
ASSUMPTIONS = [
    "inputs on which the analysis raises belong to C19",
    "the first pickle is executed by fickling.load only when its verdict is LIKELY_SAFE; all "
    "payloads are harmless regardless",
    "no built-in analysis answers POSSIBLY_UNSAFE: an Analysis subclass of the harness's own (self-registering, the "
    "documented extension point) rates pickles holding a marker string exactly that, so all six ranks occur on every face",
]

RANK = {"LIKELY_SAFE": 0, "POSSIBLY_UNSAFE": 1, "SUSPICIOUS": 2, "LIKELY_UNSAFE": 3,
        "LIKELY_OVERTLY_MALICIOUS": 4, "OVERTLY_MALICIOUS": 5}  # fmt: skip
FLAGGED = (
    # rated exactly POSSIBLY_UNSAFE (by the harness's plug-in analysis, see ensure_plugin)
    b"S'verif: rate me possibly unsafe'\n.", b"\x80\x02]q\x00X\x1e\x00\x00\x00verif: rate me possibly unsafeq\x01a.",
    b"ccollections\nOrderedDict\n)R0N.",
    b"cverif_sink\nsink\n(S'tag1'\ntR.",
    b"\x80\x04\x8c\nverif_sink\x8c\x04sink\x93\x8c\x04tag2\x85R.",
    b"cos\ngetpid\n)R.",
    b"cposix\ngetpid\n.",
    b"cbuiltins\neval\n(S'1+1'\ntR.",
    b"\x80\x02\x80\x02]q\x00.",
    b"\x80\x02\x80\x03]q\x00.",
    b"N0\x80\x02N.",
    b"cfoo.bar\nBaz\n.",
    b"cverif_sink\nsink\n)R0cos\ngetpid\n)R0cbuiltins\neval\n(S'2'\ntR.",
    b"cdatetime\ndate\n.",
    # PROTO opcodes of every version in odd places (late, repeated, inside a MARK)
    b"K\x010\x80\x01K\x02.", b"(\x80\x00K\x01K\x02t.", b"N0\x80\x01N.", b"\x80\x02N0\x80\x00N.",
    b"\x80\x00\x80\x00N.", b"\x80\x01N0\x80\x01N.", b"N0\x80\x05N.", b"\x80\x00N.", b"\x80\x01]q\x00.",
)


def severity_order_table():
    """exhaustive: 36 pairs x 6 operators"""
    from fickling.analysis import Severity

    ops = {"<": operator.lt, "<=": operator.le, ">": operator.gt, ">=": operator.ge,
           "==": operator.eq, "!=": operator.ne}  # fmt: skip
    bad = []
    n = 0
    members = list(Severity)
    if sorted(m.name for m in members) != sorted(RANK):
        bad.append(f"Severity members are {[m.name for m in members]}")
    for a, b in itertools.product(members, repeat=2):
        for sym, fn in ops.items():
            n += 1
            want = fn(RANK[a.name], RANK[b.name])
            try:
                got = fn(a, b)
            except Exception as e:  # noqa: BLE001
                bad.append(f"{a.name} {sym} {b.name} raised {e!r}")
                continue
            if bool(got) != want or not isinstance(got, bool):
                bad.append(f"{a.name} {sym} {b.name} is {got!r}, expected {want}")
    ranks = sorted(members, key=lambda m: RANK[m.name])
    if sorted(members) != ranks or max(members) is not ranks[-1] or min(members) is not ranks[0]:
        bad.append("sorted()/max()/min() over Severity disagree with the documented ranking")
    return n, bad


def parse_concat_json(text):
    dec = json.JSONDecoder()
    docs = []
    i = 0
    while i < len(text):
        while i < len(text) and text[i].isspace():
            i += 1
        if i >= len(text):
            break
        doc, j = dec.raw_decode(text, i)
        docs.append(doc)
        i = j
    return docs


MARKER = "verif: rate me possibly unsafe"
_PLUGIN = {}


def ensure_plugin():
    """no built-in analysis ever answers POSSIBLY_UNSAFE, so that rank would never be exercised: an
    analysis of the harness's own (the documented way to extend fickling: subclass Analysis, it
    registers itself) rates pickles holding a marker string exactly that.  Defined before the
    process asks its first verdict, so the default analyzer includes it on every face."""
    if _PLUGIN:
        return
    from fickling.analysis import Analysis, AnalysisResult, Severity

    class VerifMarkerAnalysis(Analysis):
        def analyze(self, context):
            if any(getattr(op, "arg", None) == MARKER for op in context.pickled):
                yield AnalysisResult(Severity.POSSIBLY_UNSAFE, "the harness's marker string is present", "VerifMarkerAnalysis",
                                     trigger=MARKER)

    _PLUGIN["cls"] = VerifMarkerAnalysis


def exit_status(rc):
    """the status a real process ends with after `exit(main())`: None is 0, an int keeps its low
    eight bits, anything else is 1"""
    if rc is None:
        return 0
    if isinstance(rc, int):
        return rc & 0xFF
    return 1


def check_long_stack(n_flagged, tail_benign, scratch):
    """the CLI clause on a long stack, through a real process: zero iff every pickle is LIKELY_SAFE"""
    import subprocess
    import sys

    from fickling.analysis import check_safety
    from fickling.fickle import StackedPickle

    flagged = [b"cos\ngetpid\n)R.", b"cbuiltins\neval\n(S'1+1'\ntR.", b"cfoo.bar\nBaz\n."]
    parts = [flagged[i % len(flagged)] for i in range(n_flagged)] + [b"N."] * tail_benign
    case = {"long": [n_flagged, tail_benign]}
    sp = StackedPickle.load(b"".join(parts))
    ranks = [RANK[check_safety(p).severity.name] for p in sp]
    if len(ranks) != len(parts):
        return None
    path = os.path.join(scratch.path, "long.pkl")
    with open(path, "wb") as f:
        f.write(b"".join(parts))
    from vlib import env

    child_env = dict(os.environ, PYTHONPATH=os.pathsep.join([env.REPO] + [p for p in sys.path if p]))
    pr = subprocess.run(
        [sys.executable, "-m", "fickling", "--check-safety", "--json-output", os.path.join(scratch.path, "r.json"), path],
        stdout=subprocess.DEVNULL, stderr=subprocess.DEVNULL, env=child_env, cwd=scratch.path, timeout=600,
    )  # fmt: skip
    if (pr.returncode == 0) != all(r == 0 for r in ranks):
        return Failure(case, f"`python -m fickling --check-safety` on a stack of {n_flagged} flagged + {tail_benign} "
                             f"harmless pickles exits {pr.returncode}; {sum(r > 0 for r in ranks)} verdicts are not LIKELY_SAFE")
    return None


def check_loader_carriers(first, other, scratch):
    """the loader face when the pickle arrives inside a larger buffer / file / mapping positioned on
    it (the bytes in front of it are `other`, of the opposite kind), as a memoryview window, through
    a descriptor-named or text-mode handle: refused iff the pickle the stream points at is flagged"""
    import pickle as _pk

    import fickling
    from fickling.analysis import check_safety
    from fickling.exception import UnsafeFileError
    from fickling.fickle import Pickled

    from vlib import carriers

    case = {"loader_carriers": [first.hex(), other.hex()]}
    rank = RANK[check_safety(Pickled.load(first)).severity.name]
    try:
        for label, make in carriers.carriers(first, scratch.path, head=other):
            for face in ("fickling.load", "hooked pickle.load"):
                reset_pickle_bindings()
                obj, closer = make()
                try:
                    if face == "fickling.load":
                        value = fickling.load(obj)
                    else:
                        fickling.always_check_safety()
                        value = _pk.load(obj)
                    outcome = "returned"
                except UnsafeFileError:
                    outcome = "refused"
                except Exception:  # noqa: BLE001 - the carrier itself is not accepted
                    outcome = "carrier-refused"
                finally:
                    reset_pickle_bindings()
                    if closer is not None:
                        closer.close()
                if outcome == "returned" and rank > 0:
                    return Failure(case, f"{face} through a {label} returned although the pickle it points at ({first!r}) is "
                                         f"flagged; the bytes in front of it are {other!r}")
                if outcome == "returned" and rank == 0 and not values.deep_equal(value, _pk.loads(first)):
                    return Failure(case, f"{face} through a {label} returned {value!r}; the harmless pickle it points at "
                                         f"is {_pk.loads(first)!r} (the bytes in front of it are {other!r})")
                if outcome == "refused" and rank == 0:
                    return Failure(case, f"{face} through a {label} refused the harmless pickle {first!r} it points at; the "
                                         f"bytes in front of it are {other!r}")
    finally:
        carriers.cleanup(scratch.path)
    return None


def check_stack(parts, json_given, print_results, scratch):
    import fickling
    from fickling import cli
    from fickling.analysis import check_safety
    from fickling.exception import UnsafeFileError
    from fickling.fickle import StackedPickle

    data = b"".join(parts)
    case = {"parts": [p.hex() for p in parts], "json_given": json_given, "print_results": print_results}
    reset_pickle_bindings()
    try:
        sp = StackedPickle.load(data)
        results = [check_safety(p) for p in sp]
    except Exception:  # noqa: BLE001
        return None, "analysis-raised", None
    if len(results) != len(parts):
        return None, "not-partitioned", None
    sev = [r.severity.name for r in results]
    ranks = [RANK[s] for s in sev]

    def fail(msg):
        return Failure(case, f"stack {[bytes(p) for p in parts]!r}: {msg}"), "checked", ranks

    for i, r in enumerate(results):
        fr = [RANK[x.severity.name] for x in r.results]
        if (max(fr) if fr else 0) != ranks[i]:
            return fail(f"pickle {i}: verdict {sev[i]} is not the maximum of its findings {fr}")
        if (ranks[i] == 0) != (len(fr) == 0):
            return fail(f"pickle {i}: verdict {sev[i]} with {len(fr)} findings")
        if r.to_dict().get("severity") != sev[i]:
            return fail(f"pickle {i}: to_dict() severity {r.to_dict().get('severity')} != {sev[i]}")
    path = os.path.join(scratch.path, "stack.pkl")
    with open(path, "wb") as f:
        f.write(data)
    try:
        ls = fickling.is_likely_safe(path)
    except Exception as e:  # noqa: BLE001
        return fail(f"is_likely_safe raised {e!r}")
    if bool(ls) != (ranks[0] == 0):
        return fail(f"is_likely_safe says {ls} but the first pickle's verdict is {sev[0]}")
    try:
        with open(path, "rb") as f:
            fickling.load(f)
        raised = None
    except UnsafeFileError as e:
        raised = e
    except Exception as e:  # noqa: BLE001
        return fail(f"fickling.load raised {e!r}")
    if (raised is not None) != (ranks[0] > 0):
        return fail(f"fickling.load {'raised' if raised else 'returned'} but the first verdict is {sev[0]}")
    if raised is not None and raised.info.get("severity") != sev[0]:
        return fail(f"UnsafeFileError.info severity {raised.info.get('severity')} != {sev[0]}")
    # a threshold given to the checked loader - positionally (it is the second parameter) or by
    # keyword - moves the line, nothing else: refusal iff the first verdict lies above it
    from fickling.analysis import Severity as _S

    thr = sorted(_S, key=lambda s: RANK[s.name])[len(data) % len(RANK)]
    for how in ("positional", "keyword"):
        try:
            with open(path, "rb") as f:
                if how == "positional":
                    fickling.load(f, thr)
                else:
                    fickling.load(f, max_acceptable_severity=thr)
            refused = False
        except UnsafeFileError:
            refused = True
        except Exception:  # noqa: BLE001 - accepted, and the (harmless) pickle itself failed to load
            refused = False
        if refused != (ranks[0] > RANK[thr.name]):
            return fail(f"fickling.load with threshold {thr.name} given as a {how} argument "
                        f"{'refused' if refused else 'accepted'} a first pickle rated {sev[0]}")
    # the same face through the armed standard loader, after a with-block (asking for a lenient
    # threshold where the API takes one) has come and gone
    import pickle as _pk

    from fickling.analysis import Severity as _Sev

    try:
        fickling.always_check_safety()
        try:
            with fickling.check_safety(max_acceptable_severity=_Sev.OVERTLY_MALICIOUS):
                pass
        except TypeError:
            with fickling.check_safety():
                pass
        try:
            with open(path, "rb") as f:
                _pk.load(f)
            hooked = None
        except UnsafeFileError as e:
            hooked = e
        except Exception as e:  # noqa: BLE001
            return fail(f"hooked pickle.load raised {e!r}")
    finally:
        fickling.hook.remove_hook()
        reset_pickle_bindings()
    if (hooked is not None) != (ranks[0] > 0):
        return fail(f"pickle.load under always_check_safety() {'raised' if hooked else 'returned'} but the first verdict is {sev[0]}")
    # the report the library writes itself, at every verbosity the API accepts
    for v in _Sev:
        rp = os.path.join(scratch.path, f"lib_report_{v.name}.json")
        try:
            r0 = check_safety(sp[0], verbosity=v, json_output_path=rp)
            with open(rp) as f:
                docs0 = parse_concat_json(f.read())
        except Exception as e:  # noqa: BLE001
            return fail(f"check_safety(verbosity={v.name}, json_output_path=...) failed: {e!r}")
        finally:
            if os.path.exists(rp):
                os.remove(rp)
        flat0 = [x for d in docs0 for x in (d if isinstance(d, list) else [d])]
        if r0.severity.name != sev[0] or [x.get("severity") for x in flat0] != [sev[0]]:
            return fail(f"check_safety(verbosity={v.name}, json_output_path=...) returned {r0.severity.name} and "
                        f"wrote {[x.get('severity') for x in flat0]}; the verdict is {sev[0]}")
    if json_given == "unwritable":
        # fault: the report cannot be written. Only the fail-closed direction is asserted: a
        # flagged stack must not exit 0 (crashing counts as non-zero, as in a real process)
        argv = ["fickling", "--check-safety", "--json-output",
                os.path.join(scratch.path, "no_such_dir", "report.json"), path]  # fmt: skip
        try:
            with contextlib.redirect_stdout(io.StringIO()), contextlib.redirect_stderr(io.StringIO()):
                rc = exit_status(cli.main(argv))
        except BaseException:  # noqa: BLE001
            rc = 1
        if rc == 0 and any(r > 0 for r in ranks):
            return fail(f"report path unwritable: CLI exit status 0 although the verdicts are {sev}")
        return None, "checked", ranks
    report = os.path.join(scratch.path, "custom_report.json" if json_given else "safety_results.json")
    argv = ["fickling", "--check-safety"]
    if json_given:
        argv += ["--json-output", report]
    if print_results:
        argv += ["--print-results"]
    argv.append(path)
    out = io.StringIO()
    try:
        with contextlib.redirect_stdout(out), contextlib.redirect_stderr(out):
            rc = exit_status(cli.main(argv))
    except BaseException as e:  # noqa: BLE001
        return fail(f"CLI raised {e!r}")
    if (rc == 0) != all(r == 0 for r in ranks):
        return fail(f"CLI exit status {rc} but the verdicts are {sev}")
    try:
        with open(report) as f:
            docs = parse_concat_json(f.read())
    except Exception as e:  # noqa: BLE001
        return fail(f"report file unreadable: {e!r}")
    flat = []
    for d in docs:  # one document per pickle, or one array of them: both are "the JSON report"
        flat.extend(d if isinstance(d, list) else [d])
    got = [d.get("severity") if isinstance(d, dict) else None for d in flat]
    if got != sev:
        return fail(f"report severities {got} != verdicts {sev}")
    return None, "checked", ranks


def replay(case):
    ensure_plugin()
    if case.get("order_table"):
        n, bad = severity_order_table()
        return Failure(case, "severity ordering: " + "; ".join(bad[:5])) if bad else None
    if "loader_carriers" in case:
        with Scratch("c10") as scratch:
            a, b = case["loader_carriers"]
            return check_loader_carriers(bytes.fromhex(a), bytes.fromhex(b), scratch)
    if "long" in case:
        with Scratch("c10") as scratch:
            return check_long_stack(case["long"][0], case["long"][1], scratch)
    with Scratch("c10") as scratch:
        return check_stack(
            [bytes.fromhex(p) for p in case["parts"]], case["json_given"], case["print_results"], scratch
        )[0]


def shards(tier):
    per = 300 if tier == "quick" else 30000
    longs = [(255, 0), (256, 0), (256, 1), (257, 0), (512, 0), (0, 256)]
    if tier != "quick":
        longs += [(768, 3), (1024, 0), (65536, 0)]
    return ([{"kind": "order"}] + [{"kind": "stacks", "n": per, "idx": i} for i in range(15)]
            + [{"kind": "long", "n_flagged": a, "tail": b} for a, b in longs] + [{"kind": "loader_carriers"}])


def run_shard(spec, seed):
    from hypothesis import strategies as st

    ensure_plugin()
    res = ShardResult()
    if spec["kind"] == "order":
        n, bad = severity_order_table()
        res.evaluations += n
        res.nontrivial_count += n
        res.exhaustive = True
        res.extra["order_comparisons"] = n
        res.samples.append({"order": "LIKELY_SAFE < POSSIBLY_UNSAFE", "expected": True})
        if bad:
            res.failures.append(Failure({"order_table": True}, "severity ordering: " + "; ".join(bad[:5])))
        return res
    if spec["kind"] == "loader_carriers":
        benign_ = [pickle.dumps([1, 2, 3], 2), b"N.", pickle.dumps({"k": "\r\n"}, 4)]
        flagged_ = [b"cos\ngetpid\n)R.", b"cbuiltins\neval\n(S'1+1'\ntR.", b"ccollections\nOrderedDict\n)R0N."]
        with Scratch("c10") as scratch:
            for a in benign_:
                for b in flagged_:
                    for first, other in ((a, b), (b, a)):
                        f = check_loader_carriers(first, other, scratch)
                        res.note((first.hex(), other.hex()), True, klass="loader-carriers",
                                 sample={"loader_carriers": [first.hex(), other.hex()]})
                        if f is not None:
                            res.failures.append(f)
                            return res
        return res
    if spec["kind"] == "long":
        with Scratch("c10") as scratch:
            f = check_long_stack(spec["n_flagged"], spec["tail"], scratch)
        res.note(("long", spec["n_flagged"], spec["tail"]), spec["n_flagged"] > 0, klass="long-stack",
                 sample={"long": [spec["n_flagged"], spec["tail"]]})
        if f is not None:
            res.failures.append(f)
        return res
    benign = st.tuples(values.plain_values(max_leaves=5), st.sampled_from(range(6))).map(
        lambda t: pickle.dumps(t[0], protocol=t[1])
    )
    # several harmless calls of different severities in one pickle, in any order, each value
    # popped: findings of one analysis with different severities, severity must be their max
    calls = st.lists(
        st.sampled_from([
            b"cverif_sink\nsink\n(S't'\ntR0", b"cos\ngetpid\n)R0", b"cbuiltins\neval\n(S'1+1'\ntR0",
            b"ccollections\nOrderedDict\n)R0", b"cbuiltins\nlen\n(S'ab'\ntR0", b"cfoo.bar\nBaz\n0",
            b"cbuiltins\ncompile\n0", b"cnumpy\nzeros\n0", b"cposix\ngetpid\n0",
        ]),
        min_size=1, max_size=5,
    ).map(lambda xs: b"".join(xs) + b"N.")
    part = st.one_of(benign, st.sampled_from(FLAGGED), calls, calls)
    strat = st.tuples(
        st.lists(part, min_size=1, max_size=5), st.sampled_from([False, True, "unwritable"]), st.booleans()
    )
    with Scratch("c10") as scratch:

        def body(case):
            parts, jg, pr = case
            f, klass, ranks = check_stack(parts, jg, pr, scratch)
            nt = bool(ranks) and len(ranks) >= 2 and len(set(ranks)) >= 2
            res.note(
                ([p.hex() for p in parts], jg, pr),
                nt,
                klass=[klass, f"k={len(parts)}"] + ([f"first-rank{ranks[0]}"] if ranks else []),
                sample={"parts": [p.hex() for p in parts], "json_given": jg, "print": pr, "ranks": ranks},
            )
            scratch.wipe()
            return f

        hypothesis_search(strat, body, seed, spec["n"], res, batch=500)
    return res

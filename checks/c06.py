"""C06  Parse / re-serialise is byte-exact; stacked pickles partition the input."""
import io
import os
import pickle
import pickletools

from vlib import asm, env, vocab
from vlib.runner import Failure, HarnessError, ShardResult, hypothesis_search

ID = "C06"
LEVEL = "exploration"
RULE = (
    "first pickle (pickle.dumps of generated values at protocols 0-5; typed-assembler programs; "
    "constant-carrying opcodes of every length-prefixed / newline-terminated family at argument "
    "lengths 0,1,255,256,65535,65536, framed and unframed) followed by trailing bytes (none, "
    "'.', 'N.', random bytes, another pickle) x delivery (bytes, bytearray, memoryview, BytesIO at "
    "offset 0 and at a non-zero offset, real file, seekable raw stream, non-seekable stream); and "
    "concatenations of 1..6 pickles. Oracle: n = end of the first pickle by pickletools.genops "
    "(cross-checked with the stock unpickler's tell() for plain data): dumps() == data[:n] and dump(file) writes the same; "
    "concatenation of opcode .data == dumps(); seekable streams are left at start+n with the "
    "trailing bytes readable and unchanged; StackedPickle.load(concat) has exactly k elements "
    "whose dumps() are the k inputs. Refusals (unimplemented opcode) are counted, not failures. "
    "Non-trivial = non-empty trailing bytes, k >= 2, or an argument at a boundary length; "
    "distinct = distinct (bytes, delivery)."
    ' Also: stack members without a payload (lone STOP, header + STOP); after every parse a copy'
    ' of it is edited (injection, newer opcode) and the original must still re-serialise'
    ' byte-exactly; for plain data the checked loader (fickling.load) is run on the same stream'
    ' and must leave it where the stock load does.'
)
ASSUMPTIONS = [
    "for a non-seekable stream only byte-exactness and the stacked partition are asserted; the "
    "'does not consume what follows' clause is the open known finding KF-C06-1 (replayed)",
    "the stock unpickler is only ever given plain-data pickles",
]

DELIVERIES = ("bytes", "bytearray", "memoryview", "bytesio", "bytesio_offset", "file",
              "file_offset", "raw_seekable", "non_seekable", "dribble")  # fmt: skip
BOUNDARY = (0, 1, 255, 256, 65535, 65536)


class Unbounded(BaseException):
    """the parser performed more stream operations than any terminating parse of a finite
    input needs (deterministic stand-in for 'does not terminate'; no wall clock involved)"""


class RawSeekable:
    """minimal seekable binary stream (not an io class) with an operation budget"""

    def __init__(self, data, pos=0):
        self._b = io.BytesIO(data)
        self._b.seek(pos)
        self._budget = 20000 + 40 * len(data)
        self._at = {}

    def _tick(self):
        # a terminating parser makes progress: it reads any one offset only a handful of
        # times (tokeniser + fickling's re-read); 64 reads of the same offset means a loop
        pos = self._b.tell()
        n = self._at.get(pos, 0) + 1
        self._at[pos] = n
        self._budget -= 1
        if n > 64 or self._budget < 0:
            raise Unbounded()

    def read(self, n=-1):
        self._tick()
        return self._b.read(n)

    def readline(self):
        self._tick()
        return self._b.readline()

    def seek(self, pos, whence=0):
        self._tick()
        return self._b.seek(pos, whence)

    def tell(self):
        return self._b.tell()

    def seekable(self):
        return True


class NonSeekable:
    def __init__(self, data):
        self._b = io.BytesIO(data)
        self.consumed = 0

    def read(self, n=-1):
        out = self._b.read(n)
        self.consumed += len(out)
        return out

    def readline(self):
        out = self._b.readline()
        self.consumed += len(out)
        return out

    def seekable(self):
        return False

    def remaining(self):
        return self._b.read()


class Dribble(NonSeekable):
    """a pipe / socket whose producer is slow: never more than a few bytes per read"""

    def read(self, n=-1):
        # read() / read(-1) means "until EOF" for every stream; only a sized read may come up short
        k = -1 if n is None or n < 0 else min(n, 3)
        out = self._b.read(k)
        self.consumed += len(out)
        return out


def end_of_first(data):
    """offset just past the first STOP, by pickletools (None if no complete pickle)"""
    try:
        for op, _arg, pos in pickletools.genops(data):
            if op.name == "STOP":
                return pos + 1
    except Exception:  # noqa: BLE001
        return None
    return None


def check_first(first, trailing, delivery, plain=False, scratch=None):
    """(Failure|None, klass)"""
    from fickling.fickle import Pickled

    data = first + trailing
    n = end_of_first(data)
    if n is None or n != len(first):
        return None, "not-a-complete-first-pickle"
    case = {"first": first.hex(), "trailing": trailing.hex(), "delivery": delivery}
    if plain:
        f = io.BytesIO(data)
        try:
            pickle.load(f)
        except Exception:  # noqa: BLE001
            return None, "stock-rejects"
        if f.tell() != n:
            return None, "tokenizers-disagree"  # never observed; would make the oracle unsound
    # pre-flight through the operation-budgeted stream: a parser that does not terminate on
    # this input is reported deterministically before an un-instrumented delivery is tried
    try:
        Pickled.load(RawSeekable(data))
    except Unbounded:
        return (
            Failure(case, f"parsing {first!r} + {trailing!r} does not terminate: unbounded "
                    "number of stream operations"),
            "parsed",
        )
    except Exception:  # noqa: BLE001
        pass
    junk = b"\x00JUNK\xff"
    start = 0
    fh = None
    if delivery == "bytes":
        src = data
    elif delivery == "bytearray":
        src = bytearray(data)
    elif delivery == "memoryview":
        src = memoryview(data)
    elif delivery == "bytesio":
        src = io.BytesIO(data)
    elif delivery == "bytesio_offset":
        src = io.BytesIO(junk + data)
        start = len(junk)
        src.seek(start)
    elif delivery in ("file", "file_offset"):
        path = os.path.join(scratch, "c06.bin")
        pre = junk if delivery == "file_offset" else b""
        with open(path, "wb") as w:
            w.write(pre + data)
        fh = open(path, "rb")
        start = len(pre)
        fh.seek(start)
        src = fh
    elif delivery == "raw_seekable":
        src = RawSeekable(junk + data, len(junk))
        start = len(junk)
    elif delivery == "non_seekable":
        src = NonSeekable(data)
    elif delivery == "dribble":
        src = Dribble(data)
    else:
        raise ValueError(delivery)
    try:
        try:
            p = Pickled.load(src)
        except Unbounded:
            return (
                Failure(case, f"parsing {first!r} + {trailing!r} ({delivery}) does not terminate: "
                        "unbounded number of stream operations"),
                "parsed",
            )
        except Exception:  # noqa: BLE001
            return None, "refused"
        try:
            out = p.dumps()
        except Exception as e:  # noqa: BLE001
            return (
                Failure(case, f"{first!r} was parsed ({delivery}) but re-serialising the untouched "
                        f"result raises {type(e).__name__}: {e}"),
                "parsed",
            )
        if out != first:
            return (
                Failure(case, f"dumps() of {first!r} delivered as {delivery} gives {out!r}"),
                "parsed",
            )
        cat = b"".join(op.data for op in p)
        if cat != out:
            return Failure(case, "concatenation of opcode data differs from dumps()"), "parsed"
        # the other re-serialiser (the one the CLI writes its output with)
        sink = io.BytesIO()
        try:
            p.dump(sink)
        except Exception as e:  # noqa: BLE001
            return (
                Failure(case, f"{first[:80]!r} was parsed ({delivery}) but dump(file) of the untouched "
                        f"result raises {type(e).__name__}: {e}"),
                "parsed",
            )
        if sink.getvalue() != first:
            return (
                Failure(case, f"dump(file) of {first[:80]!r}... ({len(first)} bytes, delivered as {delivery}) "
                        f"writes {len(sink.getvalue())} bytes that differ from the input"),
                "parsed",
            )
        if delivery in ("bytesio", "bytesio_offset", "file", "file_offset", "raw_seekable"):
            pos = src.tell()
            if pos != start + n:
                return (
                    Failure(
                        case,
                        f"stream ({delivery}) left at offset {pos}, expected {start + n} "
                        f"(immediately after the first pickle) for {first!r} + {trailing!r}",
                    ),
                    "parsed",
                )
            rest = src.read()
            if rest != trailing:
                return (
                    Failure(case, f"bytes after the first pickle altered/consumed: {rest!r}"),
                    "parsed",
                )
        if delivery == "bytearray" and bytes(src) != data:
            return Failure(case, "input bytearray was modified"), "parsed"
        # "the untouched result": editing a second Pickled built from the same opcodes (an
        # injection into a copy, an opcode of a newer protocol inserted) is not touching this one
        try:
            from fickling import fickle as F

            q = Pickled(list(p))
            q.insert(len(q) - 1, F.Memoize())
            q.insert_python_eval("1+1")
            Pickled(p).insert_python_exec("x = 1", run_first=False)
        except Exception:  # noqa: BLE001 - the edit of the copy was refused
            pass
        try:
            again = p.dumps()
        except Exception as e:  # noqa: BLE001
            return Failure(case, f"after a copy of the parse was edited, dumps() of the untouched original raises {e!r}"), "parsed"
        if again != first:
            return (
                Failure(case, f"after a copy of the parse of {first[:60]!r} was edited (injection, newer opcode), the "
                              f"untouched original re-serialises to {again[:60]!r}..."),
                "parsed",
            )
        if plain and delivery in ("bytesio", "bytesio_offset", "file", "file_offset") and len(first) < 4096:
            # the checked loader parses the same stream: like the stock load it stops after the
            # first pickle (plain data is LIKELY_SAFE, so the load goes through)
            import fickling

            src.seek(start)
            try:
                fickling.load(src)
            except Exception:  # noqa: BLE001 - refused (a verdict above LIKELY_SAFE): nothing to compare
                return None, "parsed"
            pos = src.tell()
            if pos != start + n:
                return (
                    Failure(case, f"fickling.load left the stream ({delivery}) at offset {pos}, expected {start + n} "
                                  f"(immediately after the first pickle) for {first!r} + {trailing!r}"),
                    "parsed",
                )
            if src.read() != trailing:
                return Failure(case, "fickling.load altered or consumed the bytes after the first pickle"), "parsed"
        return None, "parsed"
    finally:
        if fh is not None:
            fh.close()


def check_stack(parts, delivery="bytes"):
    from fickling.fickle import StackedPickle

    for part in parts:
        if end_of_first(part) != len(part):
            return None, "not-complete"
    data = b"".join(parts)
    case = {"parts": [x.hex() for x in parts], "delivery": delivery}
    if delivery == "bytes":
        src = data
    elif delivery == "bytesio":
        src = io.BytesIO(data)
    elif delivery == "raw_seekable":
        src = RawSeekable(data)
    elif delivery == "dribble":
        src = Dribble(data)
    else:
        src = NonSeekable(data)
    try:
        if delivery != "raw_seekable":
            StackedPickle.load(RawSeekable(data))  # pre-flight, see check_first
        sp = StackedPickle.load(src)
    except Unbounded:
        return (
            Failure(case, f"parsing a stack of {len(parts)} pickles does not terminate: unbounded "
                    "number of stream operations"),
            "stack",
        )
    except Exception:  # noqa: BLE001
        return None, "refused"
    try:
        got = [p.dumps() for p in sp]
        sink = io.BytesIO()
        for p in sp:
            p.dump(sink)
    except Exception as e:  # noqa: BLE001
        return Failure(case, f"re-serialising an untouched stack element raises {type(e).__name__}: {e}"), "stack"
    if sink.getvalue() != b"".join(got):
        return Failure(case, "dump(file) of the stack elements in order differs from their dumps()"), "stack"
    if len(got) != len(parts):
        return (
            Failure(case, f"stack of {len(parts)} pickles parsed as {len(got)} elements"),
            "stack",
        )
    for i, (a, b) in enumerate(zip(got, parts)):
        if a != b:
            return Failure(case, f"element {i} re-serialises to {a!r}, input was {b!r}"), "stack"
    return None, "stack"


def kf_c06_1(first, trailing):
    """the open finding: a non-seekable stream is drained past the first pickle"""
    from fickling.fickle import Pickled

    s = NonSeekable(first + trailing)
    Pickled.load(s)
    rest = s.remaining()
    if rest != trailing:
        return Failure(
            {"kf": "KF-C06-1", "first": first.hex(), "trailing": trailing.hex()},
            f"non-seekable stream: {len(trailing) - len(rest)} of {len(trailing)} bytes after the "
            "first pickle were consumed",
        )
    return None


def replay(case):
    if "carriers" in case:
        from vlib import carriers

        return carriers.replay(case, "c06")
    if case.get("optimized"):
        bad = _optimized_child([bytes.fromhex(case["hex"])])
        return Failure(case, f"under python -O: {bad[0][1][:300]}") if bad else None
    scratch = os.path.join(env.SCRATCH, f"c06-{os.getpid()}")
    os.makedirs(scratch, exist_ok=True)
    try:
        if case.get("kf") == "KF-C06-1":
            return kf_c06_1(bytes.fromhex(case["first"]), bytes.fromhex(case["trailing"]))
        if "parts" in case:
            return check_stack([bytes.fromhex(x) for x in case["parts"]], case["delivery"])[0]
        return check_first(
            bytes.fromhex(case["first"]), bytes.fromhex(case["trailing"]), case["delivery"],
            scratch=scratch,
        )[0]
    finally:
        _clean(scratch)


def _clean(scratch):
    import shutil

    shutil.rmtree(scratch, ignore_errors=True)


def _boundary_program(draw):
    """a pickle whose constants sit at boundary lengths, built from raw instructions"""
    from hypothesis import strategies as st

    items = []
    n = draw(st.integers(1, 4))
    for _ in range(n):
        fam = draw(st.sampled_from(["unicode", "bytes", "string", "long", "int", "global", "memo"]))
        if fam == "unicode":
            ln = draw(st.sampled_from(BOUNDARY))
            ch = draw(st.sampled_from(["a", "é", "€"]))
            s = ch * ln
            ops = asm.str_ops(s)
            items.append((draw(st.sampled_from(sorted(set(ops) - {"STRING", "SHORT_BINSTRING", "BINSTRING"}))), s))
        elif fam == "string":
            ln = draw(st.sampled_from(BOUNDARY))
            s = "z" * ln
            items.append((draw(st.sampled_from(sorted(set(asm.str_ops(s)) & {"STRING", "SHORT_BINSTRING", "BINSTRING"}))), s))
        elif fam == "bytes":
            ln = draw(st.sampled_from(BOUNDARY))
            b = b"\xfe" * ln
            items.append((draw(st.sampled_from(asm.bytes_ops(b))), b))
        elif fam == "long":
            nb = draw(st.sampled_from([0, 1, 2, 127, 128, 254, 255, 256, 300]))
            v = 0 if nb == 0 else (1 << (8 * nb - 2)) * draw(st.sampled_from([1, -1]))
            items.append((draw(st.sampled_from(["LONG1", "LONG4", "LONG", "INT"])) if nb < 255 else draw(st.sampled_from(["LONG4", "LONG"])), v))
        elif fam == "int":
            v = draw(st.sampled_from(asm.INT_POOL))
            items.append((draw(st.sampled_from(asm.int_ops(v))), v))
        elif fam == "global":
            items.append(("GLOBAL", draw(st.sampled_from(vocab.ASM_GLOBS))))
        else:
            k = draw(st.sampled_from(asm.MEMO_POOL))
            items.append(("NONE", None))
            items.append((draw(st.sampled_from(["PUT", "LONG_BINPUT"])), k))
    instrs = [("MARK", None)] + items + [(draw(st.sampled_from(["TUPLE", "LIST"])), None), ("STOP", None)]
    proto = draw(st.sampled_from([None, 2, 4, 5]))
    frame = proto is not None and proto >= 4 and draw(st.booleans())
    return asm.assemble(instrs, proto, frame), True


def _first_strategy():
    from hypothesis import strategies as st

    from vlib import values

    prof = asm.full_profile(vocab.ASM_GLOBS)
    nat = st.tuples(values.plain_values(), st.sampled_from(range(6))).map(
        lambda t: (pickle.dumps(t[0], protocol=t[1]), "plain")
    )
    inst = st.tuples(values.instance_values(), st.sampled_from(range(6))).map(
        lambda t: (_dumps(t[0], t[1]), "natural")
    )
    prog = asm.programs(prof, max_len=16).map(lambda p: (p.data, "program"))
    big = st.tuples(values.multi_frame_values(), st.sampled_from([4, 5])).map(
        lambda t: (pickle.dumps(t[0], protocol=t[1]), "multiframe")
    )
    bnd = st.composite(lambda draw: (_boundary_program(draw)[0], "boundary"))()
    return st.one_of(nat, nat, nat, inst, inst, inst, prog, prog, prog, bnd, bnd, bnd, bnd, big)


def _dumps(v, proto):
    try:
        return pickle.dumps(v, protocol=proto)
    except Exception:  # noqa: BLE001
        return b"N."


def shards(tier):
    per = 900 if tier == "quick" else 40000
    out = [{"kind": "first", "n": per, "idx": i} for i in range(12)]
    out += [{"kind": "stack", "n": per, "idx": i} for i in range(4)]
    runs = 30000 if tier == "quick" else 1500000
    out += [{"kind": "atheris", "runs": runs, "idx": i} for i in range(1 if tier == "quick" else 6)]
    out += [{"kind": "optimized", "n": 150 if tier == "quick" else 3000}]
    out += [{"kind": "carriers"}]
    return out


def _optimized_child(corpus):
    """parse + re-serialise the corpus in an interpreter started with -O (assert statements are
    compiled away there): [(hex, message)] for every pickle whose bytes do not come back"""
    import json
    import subprocess
    import sys

    from vlib import env

    code = (
        "import sys, json\n"
        f"sys.path.insert(0, {env.VERIF_ROOT!r})\n"
        "from vlib import env\n"
        "from fickling.fickle import Pickled, StackedPickle\n"
        "bad = []\n"
        "for h in sys.stdin.read().split():\n"
        "    d = bytes.fromhex(h)\n"
        "    try:\n"
        "        p = Pickled.load(d)\n"
        "    except Exception:\n"
        "        continue\n"
        "    try:\n"
        "        out = p.dumps(); parts = [q.dumps() for q in StackedPickle.load(d + d)]\n"
        "    except Exception as e:\n"
        "        bad.append([h, 're-serialising raises ' + repr(e)]); continue\n"
        "    if out != d: bad.append([h, 'dumps() gives ' + out.hex()])\n"
        "    elif parts != [d, d]: bad.append([h, 'stacked twice it parses as ' + repr([x.hex() for x in parts])])\n"
        "print(json.dumps(bad))\n"
    )
    e = dict(os.environ, VERIF_REPO=env.REPO)
    e.pop("PYTHONOPTIMIZE", None)
    p = subprocess.run([sys.executable, "-O", "-c", code], input="\n".join(d.hex() for d in corpus).encode(),
                       capture_output=True, env=e, cwd=env.VERIF_ROOT)  # fmt: skip
    if p.returncode != 0:
        raise HarnessError(f"python -O child failed: {p.stderr.decode()[-1500:]}")
    return json.loads(p.stdout.decode().strip().splitlines()[-1])


def run_shard(spec, seed):
    from hypothesis import strategies as st

    res = ShardResult()
    if spec["kind"] == "carriers":
        from vlib import carriers

        return carriers.run_shard(res, "c06")
    if spec["kind"] == "optimized":
        from vlib import values

        corpus = []

        def collect(v):
            for proto in range(6):
                try:
                    corpus.append(pickle.dumps(v, protocol=proto))
                except Exception:  # noqa: BLE001
                    pass
            return None

        hypothesis_search(st.one_of(values.plain_values(max_leaves=6), values.instance_values()), collect, seed,
                          spec["n"], res, batch=spec["n"])  # fmt: skip
        corpus = sorted(set(corpus))
        for h, msg in _optimized_child(corpus):
            res.failures.append(Failure({"optimized": True, "hex": h}, f"under python -O, {bytes.fromhex(h)[:60]!r}: {msg[:300]}"))
            break
        for d in corpus:
            res.note(d, len(d) > 20, klass="python -O", sample={"optimized": d.hex()[:120]})
        return res
    if spec["kind"] == "atheris":
        from vlib import fuzz

        seeds = (pickle.dumps([1, "a", {2: (3.5, b"x")}], 2), pickle.dumps({"k": {1, 2}}, 4) + b"N.",
                 b"(lp0\nI1\naVtext\np1\na.", b"cos\nsystem\n(S'x'\ntR.trailing")  # fmt: skip
        fuzz.run_atheris(
            res, f"c06-{spec['idx']}", os.path.join(os.path.dirname(__file__), "prog_fuzz.py"), ["C06"],
            spec["runs"], seed, seeds=seeds if spec["idx"] % 2 == 0 else (),
            nt=lambda d: end_of_first(d) is not None,
        )
        return res
    scratch = os.path.join(env.SCRATCH, f"c06-{os.getpid()}")
    os.makedirs(scratch, exist_ok=True)
    firsts = _first_strategy()
    try:
        if spec["kind"] == "first":
            trailing = st.one_of(
                st.just(b""), st.just(b"."), st.just(b"N."), st.binary(max_size=12),
                firsts.map(lambda t: t[0]),
            )  # fmt: skip
            strat = st.tuples(firsts, trailing, st.sampled_from(DELIVERIES))

            def body(case):
                (first, kind), trail, delivery = case
                f, klass = check_first(first, trail, delivery, plain=(kind == "plain"), scratch=scratch)
                if delivery in ("non_seekable", "dribble") and trail and klass == "parsed":
                    res.excluded["KF-C06-1 non-seekable trailing-bytes clause"] += 1
                res.note(
                    (first.hex(), trail.hex(), delivery),
                    bool(trail) or kind in ("boundary", "multiframe"),
                    klass=[klass, "delivery:" + delivery, "kind:" + kind],
                    sample={"first": first.hex(), "trailing": trail.hex(), "delivery": delivery},
                )
                return f

            hypothesis_search(strat, body, seed, spec["n"], res, batch=500)
        else:
            # members that are complete opcode sequences without a payload (a lone STOP, header +
            # STOP): nothing the VM could load, but they are there and have to stay there
            bare = st.sampled_from([b".", b"\x80\x04.", b"\x80\x02.", b"\x80\x04\x95\x00\x00\x00\x00\x00\x00\x00\x00."])
            member = st.one_of(*([firsts.map(lambda t: t[0])] * 7), bare)
            strat = st.tuples(
                st.lists(member, min_size=1, max_size=6),
                st.sampled_from(["bytes", "bytesio", "raw_seekable", "raw_seekable", "non_seekable", "dribble"]),
            )

            def body(case):
                parts, delivery = case
                f, klass = check_stack(parts, delivery)
                res.note(
                    ([x.hex() for x in parts], delivery),
                    len(parts) >= 2,
                    klass=[klass, f"k={len(parts)}"],
                    sample={"parts": [x.hex() for x in parts], "delivery": delivery},
                )
                return f

            hypothesis_search(strat, body, seed, spec["n"], res, batch=500)
    finally:
        _clean(scratch)
    return res

#!/venv/bin/python
"""atheris (libFuzzer) target for C01: raw bytes through the library-level analysis entry
points, with the effect monitor as the in-target oracle. A violation is written to
$C01_FUZZ_WORK/violation.txt (hex input + message) and the target raises so libFuzzer stops."""
import contextlib
import io
import os
import sys

sys.path.insert(0, os.path.dirname(os.path.dirname(os.path.abspath(__file__))))
from vlib import env  # noqa: E402,F401

sys.path.insert(0, env.DEPS)
import atheris  # noqa: E402

with atheris.instrument_imports(include=["fickling"]):
    import fickling  # noqa: F401
    import fickling.analysis
    import fickling.fickle
    import fickling.tracing

import ast  # noqa: E402
import re  # noqa: E402

from vlib.sandbox import Monitor, reset_pickle_bindings  # noqa: E402

WORK = os.environ.get("C01_FUZZ_WORK", os.getcwd())
FORBIDDEN = ("exec", "compile", "pickle.find_class", "marshal.loads", "os.system", "os.exec",
             "os.posix_spawn", "os.fork", "os.forkpty", "os.spawn", "subprocess.Popen", "socket.",
             "ctypes.", "os.remove", "os.rename", "os.mkdir", "os.rmdir", "os.unlink", "shutil.",
             "os.symlink", "os.link", "os.truncate", "os.chmod", "os.kill")  # fmt: skip
_TOKEN = re.compile(rb"[A-Za-z_][A-Za-z0-9_]*(?:\.[A-Za-z_][A-Za-z0-9_]*)*")
mon = Monitor.get()
_sink = io.StringIO()


def analyse(data):
    from fickling.analysis import check_safety
    from fickling.fickle import Interpreter, Pickled, StackedPickle
    from fickling.tracing import Trace

    steps = []

    def a():
        p = Pickled.load(data)
        steps.append(p)

    def b():
        ast.unparse(steps[0].ast)

    def c():
        check_safety(steps[0])

    def d():
        Trace(Interpreter(Pickled.load(data))).run()

    def e():
        for q in StackedPickle.load(data):
            q.ast

    for fn in (a, b, c, d, e):
        try:
            fn()
        except RecursionError:
            pass
        except Exception:  # noqa: BLE001
            pass


def TestOneInput(data):  # noqa: N802
    reset_pickle_bindings()
    _sink.seek(0)
    _sink.truncate()
    mods_before = set(sys.modules)
    files_before = set(os.listdir(WORK))
    with mon.watch() as events:
        with contextlib.redirect_stdout(_sink), contextlib.redirect_stderr(_sink):
            analyse(data)
    evs = list(events)
    msg = None
    tokens = None
    for ev in evs:
        if ev[0].startswith(FORBIDDEN):
            msg = f"audit event {ev!r}"
            break
        if ev[0] == "import":
            if tokens is None:
                tokens = set()
                for m in _TOKEN.findall(data):
                    parts = m.decode("latin-1").split(".")
                    for i in range(1, len(parts) + 1):
                        tokens.add(".".join(parts[:i]))
            if ev[1] in tokens or ev[1].split(".")[0] in tokens:
                msg = f"module {ev[1]!r} named by the input was imported"
                break
        if ev[0] == "open" and isinstance(ev[2], str) and any(c in ev[2] for c in "wax+"):
            msg = f"opened {ev[1]!r} with mode {ev[2]!r}"
            break
    if msg is None:
        new_files = set(os.listdir(WORK)) - files_before
        new_files = {f for f in new_files if not f.startswith(("crash-", "timeout-", "oom-", "slow-"))}
        if new_files:
            msg = f"files appeared: {sorted(new_files)}"
    if msg is None and tokens is not None:
        gained = [m for m in set(sys.modules) - mods_before if m.split(".")[0] in tokens]
        if gained:
            msg = f"sys.modules gained {gained}"
    if msg is not None:
        with open(os.path.join(WORK, "violation.txt"), "w") as f:
            f.write(data.hex() + "\n" + msg + "\n")
        raise RuntimeError("C01 effect: " + msg)


def main():
    # warm up lazy imports before the fuzzer starts observing
    import pickle

    for d in (pickle.dumps([1, "a", {2: (3.5, b"x")}, {4}, frozenset([5])], 4),
              b"cos\nsystem\n(S'x'\ntR.", b"Vtext\n.", b"garbage", pickle.dumps({"k": 1}, 0)):  # fmt: skip
        analyse(d)
    atheris.Setup(sys.argv, TestOneInput)
    atheris.Fuzz()


if __name__ == "__main__":
    main()

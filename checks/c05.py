"""C05  Decompiled program rebuilds the same value as the real pickle VM."""
import builtins
import pickle

from checks import _progdiff
from vlib import diff, values
from vlib.runner import Failure, ShardResult, hypothesis_search

ID = "C05"
LEVEL = "exploration"
RULE = (
    "(a) plain data: Hypothesis recursive values (boundary ints/floats/text/bytes, lists, tuples "
    "0-5, dicts, sets, frozensets, shared sub-objects) pickled at protocols 0-5; unless the "
    "encoding uses an opcode fickling never implemented (FLOAT, BYTEARRAY8, PERSID, EXT*, "
    "buffers) decompilation must succeed and exec of the source under real builtins must give a "
    "type-exact, float-sign-aware, deep-equal value. (b) typed opcode programs (bounded-exhaustive "
    "focus alphabet + Hypothesis full alphabet) and natural pickles of instances (dict/slot/"
    "reduce/newargs/setstate state; a second exhaustive alphabet of all container-building and "
    "-mutating opcodes with duplicate/distinct keys, memo aliasing and DUP): the value bound to `result` when the source runs over inert "
    "stubs must canonicalise (identity-aware for call results) equal to the reference VM's return "
    "value, and the multisets of call events must be equal. Integers around and beyond the interpreter's int/str "
    "digit limit (both signs) are part of the natural values: printed right or refused. Non-trivial = nested container, "
    "shared reference, instance with state, memo GET of a mutable, or BUILD; distinct = distinct "
    "byte strings. Programs that mutate a container after it was passed to a call (excluded above "
    "because of KF-C03-2) are judged on the final value only, with call results rendered with "
    "their arguments' current contents: an exhaustive family (container kind x call form x "
    "mutating opcode) plus random programs."
)
ASSUMPTIONS = [
    "reference = pickle._Unpickler (CPython 3.12) over inert stubs; NEWOBJ/NEWOBJ_EX normalised "
    "to a call of the class; calls of the frozenset constructor are not counted in the "
    "call-multiset equality (FROZENSET has no literal form)",
    "NaN is not generated (ast.unparse prints it as the name `nan`; NaN != NaN)",
    "aliasing between plain mutable containers is compared structurally only (fickling inlines "
    "literals by design; the statement asks for sharing 'wherever it affects the value')",
    "generator excludes the open known findings by construction (KF-C03-1 attribute-name "
    "collisions, KF-C03-2 mutation after capture) and cyclic containers",
]

# opcodes fickling has never implemented: a pickle that needs one may be refused
UNSUPPORTED = {"FLOAT", "BYTEARRAY8", "PERSID", "EXT1", "EXT2", "EXT4", "NEXT_BUFFER",
               "READONLY_BUFFER"}  # fmt: skip
_ALLOWED_IMPORTS = {"_codecs", "builtins", "__builtin__"}


def _safe_import(name, globals=None, locals=None, fromlist=(), level=0):
    if name not in _ALLOWED_IMPORTS:
        raise ImportError(f"harness: import of {name!r} not allowed while running plain data")
    if name == "__builtin__":
        return builtins
    return __import__(name, globals, locals, fromlist, level)


def check_plain(v, proto):
    """(Failure|None, klass)"""
    try:
        data = pickle.dumps(v, protocol=proto)
    except Exception:  # noqa: BLE001
        return None, "unpicklable"
    names = set(_progdiff.op_names(data))
    case = {"hex": data.hex(), "plain": True}
    d = diff.decompile(data)
    if d.status != "ok":
        if names & UNSUPPORTED:
            return None, "unsupported-opcode-refused"
        return (
            Failure(
                case,
                f"plain data {v!r} at protocol {proto} uses only supported opcodes but fickling "
                f"refused it: {type(d.error).__name__}: {d.error}",
            ),
            "refused",
        )
    g = dict(vars(builtins))
    g["__import__"] = _safe_import
    env = {}
    try:
        exec(compile(d.src, "<decompiled>", "exec"), {"__builtins__": g}, env)
    except Exception as e:  # noqa: BLE001
        return (
            Failure(
                case,
                f"decompile of plain data {v!r} (protocol {proto}) does not run: "
                f"{type(e).__name__}: {e}",
                {"source": d.src},
            ),
            "not-runnable",
        )
    # the stock unpickler is the arbiter of what the bytes mean
    want = pickle.loads(data)
    got = env.get("result")
    if not values.deep_equal(got, want):
        return (
            Failure(
                case,
                f"decompile of {data!r} rebuilds {got!r} but the pickle holds {want!r}",
                {"source": d.src},
            ),
            "ran",
        )
    return None, "ran"


def replay_plain(data):
    d = diff.decompile(data)
    names = set(_progdiff.op_names(data))
    case = {"hex": data.hex(), "plain": True}
    if d.status != "ok":
        if names & UNSUPPORTED:
            return None
        return Failure(case, f"plain data pickle {data!r} refused: {d.error!r}")
    g = dict(vars(builtins))
    g["__import__"] = _safe_import
    env = {}
    try:
        exec(compile(d.src, "<decompiled>", "exec"), {"__builtins__": g}, env)
    except Exception as e:  # noqa: BLE001
        return Failure(case, f"decompile of {data!r} does not run: {e!r}", {"source": d.src})
    want = pickle.loads(data)
    if not values.deep_equal(env.get("result"), want):
        return Failure(
            case,
            f"decompile of {data!r} rebuilds {env.get('result')!r} but the pickle holds {want!r}",
            {"source": d.src},
        )
    return None


def judge(data, prog=None):
    o = diff.examine(data)
    if o.kind in ("ref-reject", "cyclic", "refused"):
        return None, o.kind
    case = {"hex": data.hex()}
    if o.kind == "not-runnable":
        return (
            Failure(
                case,
                f"decompile of {data!r} succeeded but the program is not runnable: {o.detail}",
                {"source": o.dec.src},
            ),
            o.kind,
        )
    mm = diff.value_mismatch(o)
    if mm is not None:
        return (
            Failure(
                case,
                f"decompile of {data!r}{(' ' + mm['via']) if mm.get('via') else ''} does not rebuild the VM's value ({mm['kind']} differ)",
                {"source": o.dec.src, **{k: str(v) for k, v in mm.items()}},
            ),
            "ran",
        )
    return None, "ran"


def judge_value_only(data):
    """programs that mutate a container after it was passed to a call (the call-site clause for
    them is known finding KF-C03-2): only the final value is compared - the VM's callee holds a
    reference, so the value at STOP contains the mutation"""
    o = diff.examine(data)
    if o.kind != "ran":
        return None, o.kind  # incl. not-runnable: the decompile of such programs may refer to names too early
    try:
        from vlib.refvm import canon_live

        want = canon_live(o.ref.value)
        got = canon_live(o.ex.env["result"])
    except diff.Cyclic:
        return None, "cyclic"
    except RecursionError:
        return None, "cyclic"
    if want != got:
        return (
            Failure({"hex": data.hex(), "value_only": True},
                    f"decompile of {data!r} (a container is mutated after it was passed to a call) does not rebuild "
                    f"the VM's final value", {"source": o.dec.src, "vm": str(want)[:600], "decompile": str(got)[:600]}),
            "ran",
        )
    return None, "ran"


def captured_programs():
    """a container is passed to a call (in every call-making form), then mutated through the memo,
    and both the call result and the container are part of the value"""
    G = b"cverif_objs\nmake\n"
    conts = {
        "list": (b"]", (b"K\x01a", b"(K\x01K\x02e", b"(e")),
        "dict": (b"}", (b"K\x01K\x02s", b"(K\x01K\x02u", b"(K\x01K\x02K\x03K\x04u")),
        "set": (b"\x8f", (b"(K\x01\x90", b"(K\x01K\x02\x90")),
    }
    for cname, (empty, muts) in conts.items():
        c = empty + b"q\x00"
        calls = {
            "REDUCE(arg)": G + c + b"\x85R",
            "REDUCE(arg, None)": G + b"(" + c + b"NtR",
            "REDUCE((arg,))": G + c + b"\x85\x85R",
            "NEWOBJ": G + c + b"\x85\x81",
            "OBJ": b"(" + G + c + b"o",
            "INST": b"(" + c + b"iverif_objs\nmake\n",
            "BUILD state": G + b")R" + c + b"b",
            "BUILD dict value": G + b")R}Vk\n" + c + b"sb",
        }
        for call_name, call in calls.items():
            for mut in muts:
                for proto in (b"", b"\x80\x04"):
                    yield f"{cname} / {call_name} / {mut!r}", proto + call + b"h\x00" + mut + b"\x86."
                    yield f"{cname} / {call_name} / {mut!r} / twice", proto + call + b"h\x00" + mut + b"0h\x00" + mut + b"\x86."


def replay(case):
    if "carriers" in case:
        from vlib import carriers

        return carriers.replay(case, "c05")
    data = bytes.fromhex(case["hex"])
    if case.get("ext_registry"):
        with _progdiff.ext_registry():
            return judge(data)[0]
    if case.get("plain"):
        return replay_plain(data)
    if case.get("value_only"):
        return judge_value_only(data)[0]
    return judge(data)[0]


def nt_prog(prog):
    return bool(
        {"BUILD", "memoget-mutable"} & prog.tags
        or any(t in prog.tags for t in ("disp:memoget", "disp:dup"))
    )


def nt_bytes(data):
    names = _progdiff.op_names(data)
    return "BUILD" in names or sum(n in _progdiff.CALL_NAMES for n in names) >= 2


FUZZ_SEEDS = (
    b"cos\nsystem\n(S'x'\ntR.", b"(cos\nsystem\nS'x'\no0N.", b"cos\nsystem\n)\x81}b.",
    b"\x80\x04\x8c\x02os\x8c\x06system\x93\x8c\x01x\x85R\x94h\x00\x86.", b"(lp0\nI1\naI2\na(dp1\nVk\np2\ng0\nsa.",
    b"]q\x00(K\x01K\x02e}q\x01(h\x00h\x00u\x86.", b"\x8f\x94(K\x01K\x02\x90(K\x03\x91h\x00\x86.", b"NNQ0(NNd.",
)


def shards(tier):
    out = _progdiff.shards(tier, quick_len=4, thorough_len=5, container_len=(5, 6), alias_len=(6, 8), kwargs_len=(7, 8))
    n = 400 if tier == "quick" else 6000
    out += [{"kind": "plain", "n": n, "idx": i} for i in range(16)]
    out += [{"kind": "captured", "n": 300 if tier == "quick" else 8000, "idx": i} for i in range(4)]
    runs = 30000 if tier == "quick" else 1500000
    out += [{"kind": "atheris", "runs": runs, "idx": i} for i in range(1 if tier == "quick" else 6)]
    # what is decompiled is the pickle the caller pointed at, whatever object carries the bytes
    out += [{"kind": "carriers"}]
    return out


def run_shard(spec, seed):
    if spec["kind"] == "carriers":
        from vlib import carriers

        return carriers.run_shard(ShardResult(), "c05")
    if spec["kind"] == "atheris":
        import os

        from vlib import decode, fuzz

        res = ShardResult()
        fuzz.run_atheris(
            res, f"c05-{spec['idx']}", os.path.join(os.path.dirname(__file__), "prog_fuzz.py"), ["C05"],
            spec["runs"], seed, seeds=FUZZ_SEEDS if spec["idx"] % 2 == 0 else (), nt=decode.in_typed_domain,
        )
        return res
    if spec["kind"] == "captured":
        from vlib import asm, vocab

        res = ShardResult()
        prof = asm.full_profile(vocab.ASM_GLOBS, no_mutation_after_capture=False)

        def body(prog):
            if not any(k.startswith("KF-C03-2") for k in prog.excluded) and "mutated-after-capture" not in prog.tags:
                pass
            f, klass = judge_value_only(prog.data)
            res.note(prog.data, "BUILD" in prog.tags or prog.ncalls > 0, klass=[klass, "captured"], sample={"captured": prog.data.hex()})
            return f

        if spec["idx"] == 0:
            for label, data in captured_programs():
                f, klass = judge_value_only(data)
                res.note(data, True, klass=[klass, "captured-family"], sample={"family": label, "hex": data.hex()})
                if f is not None:
                    res.failures.append(f)
                    return res
        hypothesis_search(asm.programs(prof, max_len=24), body, seed, spec["n"], res, batch=500)
        return res
    if spec["kind"] != "plain":
        return _progdiff.run_shard(spec, seed, judge, nt_prog, nt_bytes)
    res = ShardResult()

    def body(v):
        feats = values.features(v)
        nt = bool({"nested", "shared"} & feats)
        for proto in range(6):
            f, klass = check_plain(v, proto)
            res.note(
                (repr(v), proto),
                nt,
                klass=[klass, f"plain-proto{proto}"],
                sample={"plain": repr(v)[:200], "protocol": proto},
            )
            if f is not None:
                return f
        return None

    hypothesis_search(values.plain_values(extra_scalars=True), body, seed, spec["n"], res, batch=500)
    return res

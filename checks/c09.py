"""C09  Stepping and tracing mirror the real pickle VM opcode by opcode."""
import contextlib
import io
import pickle

from vlib import asm, vocab
from vlib.refvm import run_ref
from vlib.runner import Failure, ShardResult, hypothesis_search

ID = "C09"
LEVEL = "exploration"
RULE = (
    "typed opcode programs (bounded-exhaustive DFS over the 27-op focus alphabet up to the stated "
    "length, further exhaustive alphabets for containers, aliasing and the protocol-5 out-of-band "
    "buffer opcodes, Hypothesis-generated programs over the full alphabet with all encodings, and "
    "pickle.dumps of generated values at protocols 0-5); after every Interpreter.step() the "
    "(stack depth, mark positions, memo keys) are compared with the instrumented CPython "
    "pure-Python unpickler after the same opcode, for every prefix both accept; Trace.run() must "
    "print each opcode once in order, return the same program text as untraced decompilation and "
    "leave dumps() unchanged, also when it takes over an interpreter that was already stepped k times; the CLI face of the same clause on stacks of 1-3 generated programs: "
    "after a trace through an interpreter with its own variable numbering / result name the object's own .ast is "
    "unchanged; untyped exhaustive enumeration: every token sequence (<= 5 over 14 tokens, <= 6 over 9 core tokens in the "
    "quick tier) each prefix of which the VM executes, acyclic, is stepped in lockstep; "
    "every line of `fickling FILE` appears in order among the unindented lines of `fickling --trace "
    "FILE` and no other statement does (same variable and result names across the stack). Non-trivial = program of >= 3 opcodes that contains a MARK-consuming "
    "opcode or memo traffic; distinct = distinct byte strings."
)
ASSUMPTIONS = [
    "reference = pickle._Unpickler (CPython 3.12) with find_class/persistent_load returning "
    "inert stubs; NEWOBJ/NEWOBJ_EX normalised to a call of the class",
    "a step on which only fickling raises is a refusal (allowed), not a mismatch",
    "cyclic containers are outside the quantifier (acyclic flag on)",
]

MARK_CONSUMERS = {"TUPLE", "LIST", "DICT", "FROZENSET", "POP_MARK", "OBJ", "INST", "APPENDS",
                  "SETITEMS", "ADDITEMS"}  # fmt: skip
MEMO_OPS = {"PUT", "BINPUT", "LONG_BINPUT", "MEMOIZE", "GET", "BINGET", "LONG_BINGET"}


def _fshape(interp):
    from fickling.fickle import MarkObject

    st = interp.stack
    marks = tuple(i for i in range(len(st)) if isinstance(st[i], MarkObject))
    return len(st), marks, frozenset(interp.memory)


def lockstep(data):
    """returns (status, detail).  status: 'ok', 'parse-refused', 'mismatch'"""
    from fickling.fickle import Interpreter, Pickled

    shapes = []
    run_ref(data, on_op=lambda vm, key: shapes.append((key, vm.shape())))
    try:
        p = Pickled.load(data)
    except Exception:  # noqa: BLE001
        return "parse-refused", None, 0
    ops = list(p)
    interp = Interpreter(p)
    compared = 0
    for i, op in enumerate(ops):
        if i >= len(shapes):
            break  # the reference VM rejected this opcode: prefix no longer accepted by both
        try:
            interp.step()
        except StopIteration:
            break
        except Exception:  # noqa: BLE001
            return "ok", f"fickling refused at opcode {i} ({op.name})", compared
        key, want = shapes[i]
        if op.info.code.encode("latin-1")[0] != key:
            return "mismatch", f"opcode streams not aligned at {i}: {op.name} vs {key!r}", compared
        got = _fshape(interp)
        compared += 1
        if got != want:
            return (
                "mismatch",
                f"after opcode {i} ({op.name}): fickling (depth, marks, memo keys)="
                f"{(got[0], got[1], sorted(got[2]))} but the VM has "
                f"{(want[0], want[1], sorted(want[2]))}",
                compared,
            )
    return "ok", None, compared


def trace_check(data):
    """None if fine, else message"""
    import ast

    from fickling.fickle import Interpreter, Pickled
    from fickling.tracing import Trace

    try:
        p = Pickled.load(data)
        want_src = ast.unparse(p.ast)
    except Exception:  # noqa: BLE001
        return None  # untraced decompilation refuses: nothing to compare
    before = p.dumps()
    p2 = Pickled.load(data)
    buf = io.StringIO()
    try:
        with contextlib.redirect_stdout(buf):
            tree = Trace(Interpreter(p2)).run()
        got_src = ast.unparse(tree)
    except Exception as e:  # noqa: BLE001
        return f"tracing raised {type(e).__name__}: {e} although untraced decompilation succeeds"
    # opcode report lines = unindented lines that are pickle opcode names (a banner or summary
    # line a future version might print is not an opcode report)
    import pickletools

    known = {o.name for o in pickletools.opcodes}
    names = [ln.strip() for ln in buf.getvalue().split("\n") if ln and not ln[0].isspace() and ln.strip() in known]
    want_names = [op.name for op in p2]
    # the interpreter stops at STOP; opcodes after it are never run
    if "STOP" in want_names:
        want_names = want_names[: want_names.index("STOP") + 1]
    if names != want_names:
        return f"trace printed opcodes {names} but the program is {want_names}"
    if got_src != want_src:
        return f"traced program differs from untraced: {got_src!r} vs {want_src!r}"
    if p2.dumps() != before:
        return "tracing changed the serialised bytes"
    # the same report when standard output is a terminal (here: a pseudo-terminal nobody has sized)
    if len(data) % 4 == 0 and len(data) < 400:
        msg = _trace_on_pty(data, want_names, known)
        if msg:
            return msg
    # a trace through an interpreter configured the way the CLI configures one for a stack member
    # (own variable numbering and result name) is passive too: what the object itself decompiles
    # to afterwards is what it decompiles to without any trace
    p6 = Pickled.load(data)
    try:
        with contextlib.redirect_stdout(io.StringIO()):
            Trace(Interpreter(p6, first_variable_id=7, result_variable="result1")).run()
        after6 = ast.unparse(p6.ast)
    except Exception as e:  # noqa: BLE001
        return f"after a trace with CLI-style naming, decompiling the object raised {type(e).__name__}: {e}"
    if after6 != want_src:
        return (f"after a trace with its own variable numbering / result name, Pickled.ast gives {after6!r}; "
                f"untraced it is {want_src!r}")
    # opcodes after the first STOP (appended to the object after loading) are never executed, by
    # whichever entry point
    try:
        from fickling import fickle as F

        p5 = Pickled.load(data)
        p5.extend([F.Global.create("os", "getpid"), F.EmptyTuple(), F.Reduce(), F.Stop()])
        plain5 = ast.unparse(p5.ast)
        with contextlib.redirect_stdout(io.StringIO()):
            traced5 = ast.unparse(Trace(Interpreter(p5)).run())
        run5 = ast.unparse(Interpreter(p5).to_ast())
    except Exception:  # noqa: BLE001
        plain5 = traced5 = run5 = None
    if plain5 is not None and not (plain5 == traced5 == run5 == want_src):
        return (f"with further opcodes appended after STOP, Pickled.ast gives {plain5!r}, Interpreter.to_ast {run5!r}, "
                f"Trace.run {traced5!r}; without them the program is {want_src!r}")
    # a trace taken over from an interpreter that has already been stepped k times reports the
    # remaining opcodes, once, in order, and still returns the same program
    n = len(want_names)
    for k in sorted({1, n // 2, n - 1} - {0, n}):
        p3 = Pickled.load(data)
        it = Interpreter(p3)
        buf = io.StringIO()
        try:
            for _ in range(k):
                it.step()
            with contextlib.redirect_stdout(buf):
                tree = Trace(it).run()
            src3 = ast.unparse(tree)
        except Exception as e:  # noqa: BLE001
            return f"tracing after {k} manual steps raised {type(e).__name__}: {e}"
        names3 = [ln.strip() for ln in buf.getvalue().split("\n") if ln and not ln[0].isspace() and ln.strip() in known]
        if names3 != want_names[k:]:
            return (f"after {k} manual steps the trace printed opcodes {names3} but the remaining program is "
                    f"{want_names[k:]}")
        if src3 != want_src:
            return f"tracing after {k} manual steps returns a different program: {src3!r} vs {want_src!r}"
    return None


def _trace_on_pty(data, want_names, known):
    import os
    import sys
    import threading

    from fickling.fickle import Interpreter, Pickled
    from fickling.tracing import Trace

    master, slave = os.openpty()
    chunks = []

    def pump():
        while True:
            try:
                b = os.read(master, 65536)
            except OSError:
                break
            if not b:
                break
            chunks.append(b)

    t = threading.Thread(target=pump, daemon=True)
    t.start()
    w = os.fdopen(slave, "w", buffering=1)
    saved = sys.stdout
    sys.stdout = w
    err = None
    try:
        Trace(Interpreter(Pickled.load(data))).run()
    except Exception as e:  # noqa: BLE001
        err = e
    finally:
        sys.stdout = saved
        # (a terminal drops what was not read yet when its last writer goes away: wait for the
        # reader to have seen everything before closing)
        import time

        w.write("\n@@verif-end-of-report@@\n")
        w.flush()
        t0 = time.monotonic()
        while b"@@verif-end-of-report@@" not in b"".join(chunks) and time.monotonic() - t0 < 10:
            time.sleep(0.001)
        w.close()
        t.join(5)
        os.close(master)
    if b"@@verif-end-of-report@@" not in b"".join(chunks):
        return None  # the pseudo-terminal did not deliver: inconclusive, not a verdict
    if err is not None:
        return f"tracing to a terminal raised {type(err).__name__}: {err} (it does not when standard output is a pipe)"
    text = b"".join(chunks).decode("utf-8", "replace").replace("\r\n", "\n")
    lines = [ln for ln in text.split("\n") if ln and not ln[0].isspace()]
    names = [ln.strip() for ln in lines if ln.strip() in known]
    if names != want_names:
        odd = [ln for ln in lines if ln.strip() not in known][:3]
        return (f"traced to a terminal, the report names the opcodes {names} (other unindented lines: {odd}); the "
                f"program is {want_names}")
    return None


def cli_trace_check(parts, scratch):
    """CLI face of the trace clause on a stack of pickles: `fickling --trace FILE` must emit the
    program `fickling FILE` emits (same statements, same variable and result names), the trace
    lines being the indented lines and the opcode names.  (message|None, klass)"""
    import os
    import pickletools

    from checks.c18 import run_cli

    path = os.path.join(scratch.path, "stack.pkl")
    with open(path, "wb") as f:
        f.write(b"".join(parts))
    rc0, out0, _ = run_cli([path])
    if rc0 != 0 or not out0.strip():
        return None, "cli-refused"
    rc1, out1, err1 = run_cli(["--trace", path])
    plain = out0.decode("utf-8", "replace").splitlines()
    if rc1 != 0:
        return f"`fickling --trace` exits {rc1} on a stack that `fickling` decompiles ({err1.strip()[-200:]})", "cli-traced"
    known = {o.name for o in pickletools.opcodes}
    traced = [ln for ln in out1.decode("utf-8", "replace").splitlines() if ln and not ln[0].isspace()]
    # every line of the untraced program, in order, among the unindented traced lines ...
    it = iter(traced)
    for ln in plain:
        if not any(t == ln for t in it):
            return f"untraced program line {ln!r} is missing (or out of order) in the --trace output", "cli-traced"
    # ... and no other statement among them (opcode names and free text are the trace's own)
    want = set(plain)
    for t in traced:
        if t in known or t in want:
            continue
        if " = " in t or t.startswith(("from ", "import ")):
            return f"--trace output contains the statement {t!r} which the untraced program does not", "cli-traced"
    return None, "cli-traced"


def check_bytes(data, do_trace=True):
    status, detail, compared = lockstep(data)
    if status == "mismatch":
        return Failure({"hex": data.hex()}, f"step shape mismatch on {data!r}: {detail}")
    if do_trace:
        msg = trace_check(data)
        if msg:
            return Failure({"hex": data.hex()}, f"trace mismatch on {data!r}: {msg}")
    return None


def replay(case):
    if "carriers" in case:
        from vlib import carriers

        return carriers.replay(case, "c09")
    if "parts" in case:
        from vlib.sandbox import Scratch

        with Scratch("c09") as scratch:
            msg, _ = cli_trace_check([bytes.fromhex(x) for x in case["parts"]], scratch)
        return Failure(case, f"CLI trace mismatch: {msg}") if msg else None
    return check_bytes(bytes.fromhex(case["hex"]))


def _nontrivial_prog(prog):
    ops = {op for op, _ in prog.instrs}
    return len(prog.instrs) >= 3 and bool(ops & (MARK_CONSUMERS | MEMO_OPS))


def _names(data):
    import pickletools

    try:
        return [op.name for op, _, _ in pickletools.genops(data)]
    except Exception:  # noqa: BLE001
        return []


def _nontrivial_bytes(data):
    import pickletools

    try:
        names = [op.name for op, _, _ in pickletools.genops(data)]
    except Exception:  # noqa: BLE001
        return False
    return len(names) >= 3 and bool(set(names) & (MARK_CONSUMERS | MEMO_OPS))


FUZZ_SEEDS = (
    b"cos\nsystem\n(S'x'\ntR.", b"(cos\nsystem\nS'x'\no0N.", b"cos\nsystem\n)\x81}b.",
    b"\x80\x04\x8c\x02os\x8c\x06system\x93\x8c\x01x\x85R\x94h\x00\x86.", b"(lp0\nI1\naI2\na(dp1\nVk\np2\ng0\nsa.",
    b"]q\x00(K\x01K\x02e}q\x01(h\x00h\x00u\x86.", b"\x8f\x94(K\x01K\x02\x90(K\x03\x91h\x00\x86.", b"NNQ0(NNd.",
)


def shards(tier):
    prof = asm.focus_profile()
    depth = 2
    pres = asm.prefixes(prof, depth)
    n = 16
    L = 4 if tier == "quick" else 5
    out = [{"kind": "enum", "L": L, "depth": depth, "part": i, "nparts": n} for i in range(n)]
    out[0]["short"] = True
    Lc = 4 if tier == "quick" else 6
    cont = [{"kind": "enum", "alphabet": "containers", "L": Lc, "depth": depth, "part": i, "nparts": n}
            for i in range(n)]  # fmt: skip
    cont[0]["short"] = True
    out += cont
    La = 6 if tier == "quick" else 7
    al = [{"kind": "enum", "alphabet": "aliasing", "L": La, "depth": depth, "part": i, "nparts": n}
          for i in range(n)]  # fmt: skip
    al[0]["short"] = True
    out += al
    Lb = 5 if tier == "quick" else 7
    bu = [{"kind": "enum", "alphabet": "buffers", "L": Lb, "depth": depth, "part": i, "nparts": n}
          for i in range(n)]  # fmt: skip
    bu[0]["short"] = True
    out += bu
    nrand = 16
    per = 250 if tier == "quick" else 4000
    out += [{"kind": "random", "n": per, "idx": i} for i in range(nrand)]
    out += [{"kind": "natural", "n": 150 if tier == "quick" else 2500, "idx": i} for i in range(8)]
    runs = 30000 if tier == "quick" else 1500000
    out += [{"kind": "atheris", "runs": runs, "idx": i} for i in range(1 if tier == "quick" else 6)]
    out += [{"kind": "cli_stack", "n": 60 if tier == "quick" else 1500, "idx": i} for i in range(8)]
    # untyped programs: every token sequence over a small alphabet whose every prefix the VM accepts
    out += [{"kind": "raw_enum", "L": 5 if tier == "quick" else 6, "part": i, "nparts": 16} for i in range(16)]
    out += [{"kind": "raw_enum", "core": True, "L": 6 if tier == "quick" else 7, "part": i, "nparts": 16}
            for i in range(16)]  # fmt: skip
    # what is stepped is the pickle the caller pointed at, whatever object carries the bytes
    out += [{"kind": "carriers"}]
    _ = pres
    return out


# tokens of the untyped enumeration: containers, small ints, the in-place update opcodes applied to
# whatever happens to be there (SETITEM on a list is `lst[k] = v` in the VM), stack and memo traffic
RAW_TOKENS = (b"]", b"}", b"K\x00", b"K\x01", b"N", b"a", b"s", b"(", b"e", b"u", b"0", b"2", b"\x94", b"h\x00")


def _vm_accepts_all(tokens):
    """does the reference VM execute every one of these opcodes (whatever happens at STOP)?"""
    n = [0]
    cyc = [False]

    def on_op(vm, key):
        n[0] += 1
        if n[0] <= len(tokens) and not cyc[0]:
            roots = [x for s in vm.metastack for x in s] + list(vm.stack) + list(vm.memo.values())
            cyc[0] = _has_cycle(roots)

    run_ref(b"".join(tokens) + b".", on_op=on_op)
    # a container that contains itself is outside the quantifier (see ASSUMPTIONS)
    return n[0] >= len(tokens) and not cyc[0]


def _has_cycle(roots):
    path = set()

    def walk(v):
        if isinstance(v, (list, tuple)):
            kids = v
        elif isinstance(v, dict):
            kids = list(v.keys()) + list(v.values())
        else:
            return False
        if id(v) in path:
            return True
        path.add(id(v))
        try:
            return any(walk(k) for k in kids)
        finally:
            path.discard(id(v))

    return any(walk(r) for r in roots)


RAW_CORE = RAW_TOKENS[:4] + (b"a", b"s", b"(", b"e", b"u")


def raw_programs(L, part, nparts, RAW_TOKENS=RAW_TOKENS):
    firsts = [(a, b) for a in RAW_TOKENS for b in RAW_TOKENS]
    stack = [list(pre) for pre in firsts[part::nparts]]
    if part == 0:
        stack += [[t] for t in RAW_TOKENS]
    while stack:
        toks = stack.pop()
        if not _vm_accepts_all(toks):
            continue
        yield toks
        if len(toks) < L:
            stack.extend(toks + [t] for t in RAW_TOKENS)


def run_shard(spec, seed):
    res = ShardResult()
    if spec["kind"] == "carriers":
        from vlib import carriers

        return carriers.run_shard(res, "c09")
    if spec["kind"] == "atheris":
        import os

        from vlib import decode, fuzz

        fuzz.run_atheris(
            res, f"c09-{spec['idx']}", os.path.join(os.path.dirname(__file__), "prog_fuzz.py"), ["C09"],
            spec["runs"], seed, seeds=FUZZ_SEEDS if spec["idx"] % 2 == 0 else (), nt=decode.in_typed_domain,
        )
        return res
    if spec["kind"] == "cli_stack":
        from hypothesis import strategies as st

        from vlib.sandbox import Scratch

        prof = asm.full_profile(vocab.ASM_GLOBS)
        one = st.one_of(
            asm.programs(prof, max_len=14).map(lambda pr: pr.data),
            st.sampled_from(FUZZ_SEEDS + (b"cos\ngetpid\n)R.", b"N.", b"cos\ngetpid\n)Rcos\ngetppid\n)R\x86.")),
        )
        with Scratch("c09") as scratch:

            def body(parts):
                msg, klass = cli_trace_check(parts, scratch)
                calls = sum(sum(n in ("REDUCE", "OBJ", "INST", "NEWOBJ") for n in _names(x)) > 0 for x in parts[:-1])
                res.note(b"".join(parts), len(parts) >= 2 and calls > 0, klass=[klass, f"stack{len(parts)}"],
                         sample={"parts": [x.hex() for x in parts]})  # fmt: skip
                if msg:
                    return Failure({"parts": [x.hex() for x in parts]}, f"CLI trace mismatch on a stack of {len(parts)}: {msg}")
                return None

            hypothesis_search(st.lists(one, min_size=1, max_size=3), body, seed, spec["n"], res, batch=500)
        return res
    if spec["kind"] == "enum":
        prof = asm.ENUM_PROFILES[spec["alphabet"]]() if spec.get("alphabet") else asm.focus_profile()
        pres = asm.prefixes(prof, spec["depth"])
        mine = pres[spec["part"] :: spec["nparts"]]

        def progs():
            if spec.get("short"):
                yield from asm.enumerate_short(prof, spec["depth"])
            for pre in mine:
                yield from asm.enumerate_from(prof, pre, spec["L"])

        for prog in progs():
            f = check_bytes(prog.data, do_trace=True)
            res.note(None, _nontrivial_prog(prog), sample={"enum": prog.data.hex()})
            res.extra["enumerated_programs"] = res.extra.get("enumerated_programs", 0) + 1
            if f is not None:
                res.failures.append(f)
                break
        res.exhaustive = True
        res.info["exhaustive_subspace"] = (
            f"all typed programs over the {len(prof.ops)}-op focus alphabet with <= {spec['L']} "
            "opcodes before STOP (count in enumerated_programs)"
        )
    elif spec["kind"] == "raw_enum":
        alphabet = RAW_CORE if spec.get("core") else RAW_TOKENS
        for toks in raw_programs(spec["L"], spec["part"], spec["nparts"], alphabet):
            data = b"".join(toks) + b"."
            # stepping on every program; the trace clause on those that leave a value
            f = check_bytes(data, do_trace=len(toks) % 2 == 0)
            names = _names(data)
            res.note(None, len(names) >= 3 and bool(set(names) & (MARK_CONSUMERS | MEMO_OPS)), klass="raw",
                     sample={"raw": data.hex()})
            res.extra["raw_programs"] = res.extra.get("raw_programs", 0) + 1
            if f is not None:
                res.failures.append(f)
                break
        res.exhaustive = True
        res.info["exhaustive_subspace_raw_core" if spec.get("core") else "exhaustive_subspace_raw"] = (
            f"all sequences of <= {spec['L']} tokens over the {len(alphabet)}-token untyped alphabet "
            "every prefix of which the reference VM executes (count in raw_programs)"
        )
    elif spec["kind"] == "random":
        # every other shard also draws the protocol-5 out-of-band buffer opcodes
        prof = asm.full_profile(vocab.ASM_GLOBS, buffers=spec["idx"] % 2 == 1, list_ops_on_obj=spec["idx"] % 4 >= 2)

        def body(prog):
            f = check_bytes(prog.data)
            res.note(prog.data, _nontrivial_prog(prog), sample={"random": prog.data.hex()})
            return f

        hypothesis_search(asm.programs(prof, max_len=30), body, seed, spec["n"], res, batch=500)
    else:
        from hypothesis import strategies as st

        from vlib import values

        strat = st.one_of(values.plain_values(), values.instance_values())

        def body(v):
            for proto in range(6):
                try:
                    data = pickle.dumps(v, protocol=proto)
                except Exception:  # noqa: BLE001
                    continue
                f = check_bytes(data)
                res.note(
                    data,
                    _nontrivial_bytes(data),
                    klass=f"natural-proto{proto}",
                    sample={"natural": data.hex()[:400], "value": repr(v)[:200]},
                )
                if f is not None:
                    return f
            return None

        hypothesis_search(strat, body, seed, spec["n"], res, batch=500)
    return res

"""C03  No hidden execution: everything the VM would import or call is in the decompile."""
from checks import _progdiff
from vlib import diff
from vlib.runner import Failure

ID = "C03"
LEVEL = "exploration"
RULE = (
    "typed opcode programs accepted by the reference VM (bounded-exhaustive DFS over the 27-op "
    "focus alphabet incl. GLOBAL/STACK_GLOBAL/INST/OBJ/NEWOBJ/NEWOBJ_EX/REDUCE/BUILD/BINPERSID x "
    "POP/POP_MARK/DUP/memo/left-below, Hypothesis programs over the full alphabet and all "
    "encodings, natural pickles of generated values and instances at protocols 0-5). Oracle: the "
    "set of import events (builtins family exempt) and the multiset of call events (canonical callee, "
    "args, kwargs) logged by CPython's pure-Python unpickler over inert stubs must be included in "
    "the multiset logged when the decompiled source is executed over the same stubs; a decompile "
    "that does not compile/run is a violation; refusing with an error is allowed. The decompile is "
    "also taken from an object that has been analysed first and from Trace.run(); where that text "
    "differs it is judged as well. Stacks of 2-4 such "
    "pickles, some starting with an opcode fickling does not model: the stack is refused with an "
    "error or has every member, each decompiling as it does alone. Non-trivial = "
    "program performs >= 1 call whose result is not simply the value at STOP (popped, below the "
    "result, duplicated, memoised, nested, argument of another call, BUILD target/state); "
    "distinct = distinct byte strings."
)
ASSUMPTIONS = [
    "reference = pickle._Unpickler (CPython 3.12) over inert stubs; NEWOBJ/NEWOBJ_EX normalised "
    "to a call of the class, BUILD on a stub to a call of obj.__setstate__(state); the stand-in "
    "for builtins.frozenset really builds the frozenset (plain data) and logs the call",
    "event order is not compared (the statement does not require it)",
    "generator excludes the open known findings by construction: two globals sharing an "
    "attribute name (KF-C03-1), containers mutated after capture by a call (KF-C03-2), cyclic "
    "containers (outside the quantifier)",
    "BUILD is generated only on call results / globals (what pickle itself emits)",
]


def judge(data, prog=None):
    o = diff.examine(data)
    if o.kind in ("ref-reject", "cyclic", "refused"):
        return None, o.kind
    case = {"hex": data.hex()}
    if o.kind == "not-runnable":
        return (
            Failure(
                case,
                f"decompile of {data!r} succeeded but the program is not runnable: {o.detail}",
                {"source": o.dec.src},
            ),
            o.kind,
        )
    lack = diff.hidden_execution(o)
    if lack:
        ev, want, got = lack[0]
        return (
            Failure(
                case,
                f"hidden execution in {data!r}: the VM performs {ev!r} {want}x but the decompile "
                f"{('(' + o.via + ') ') if o.via else ''}only {got}x",
                {"source": o.dec.src, "missing": repr(lack)[:2000]},
            ),
            "ran",
        )
    return None, "ran"


UNMODELLED_FIRST = (b"F1.5\n.", b"\x82\x01.", b"Ppid\n.", b"\x96\x01\x00\x00\x00\x00\x00\x00\x00x.", b"\x97.",
                    b"F1.5\ncos\ngetpid\n)R\x86.", b"\x83\x01\x00.")  # fmt: skip


def _safe_dumps(pickle, v, proto):
    try:
        return pickle.dumps(v, protocol=proto)
    except Exception:  # noqa: BLE001 - not picklable at this protocol
        return b"N."


def judge_stack(parts):
    """the refusal clause on a stack of pickles: either the stack is refused with an error, or
    every member is there (none silently left out) and decompiles (or is refused) like it does
    alone.  (Failure|None, klass)"""
    import ast

    from fickling.fickle import StackedPickle

    data = b"".join(parts)
    case = {"parts": [p.hex() for p in parts]}
    try:
        sp = StackedPickle.load(data)
        got = [p.dumps() for p in sp]
    except Exception:  # noqa: BLE001
        return None, "stack-refused"
    if got != list(parts):
        return (
            Failure(case, f"a stack of {len(parts)} pickles {[p[:30] for p in parts]!r} was accepted without error but "
                          f"has {len(got)} members {[g[:30] for g in got]!r}: a pickle was left out instead of refused"),
            "stack",
        )
    for i, (p, part) in enumerate(zip(sp, parts)):
        try:
            src = ast.unparse(p.ast)
        except Exception:  # noqa: BLE001
            continue
        alone = diff.decompile(part)
        if alone.status != "ok" or alone.src != src:
            return (
                Failure(case, f"member {i} of the stack decompiles to {src!r} but the same bytes alone "
                              f"{'are refused' if alone.status != 'ok' else 'decompile to ' + repr(alone.src)}"),
                "stack",
            )
    return None, "stack"


def replay(case):
    if case.get("ext_registry"):
        with _progdiff.ext_registry():
            return judge(bytes.fromhex(case["hex"]))[0]
    if "parts" in case:
        return judge_stack([bytes.fromhex(p) for p in case["parts"]])[0]
    return judge(bytes.fromhex(case["hex"]))[0]


def nt_prog(prog):
    return "call-not-result" in prog.tags or any(t.startswith("disp:") for t in prog.tags)


def nt_bytes(data):
    names = _progdiff.op_names(data)
    calls = [n for n in names if n in _progdiff.CALL_NAMES]
    return len(calls) >= 2 or "BUILD" in calls


FUZZ_SEEDS = (
    b"cos\nsystem\n(S'x'\ntR.", b"(cos\nsystem\nS'x'\no0N.", b"cos\nsystem\n)\x81}b.",
    b"\x80\x04\x8c\x02os\x8c\x06system\x93\x8c\x01x\x85R\x94h\x00\x86.", b"(lp0\nI1\naI2\na(dp1\nVk\np2\ng0\nsa.",
    b"]q\x00(K\x01K\x02e}q\x01(h\x00h\x00u\x86.", b"\x8f\x94(K\x01K\x02\x90(K\x03\x91h\x00\x86.", b"NNQ0(NNd.",
)


def shards(tier):
    out = _progdiff.shards(tier, quick_len=4, thorough_len=6, kwargs_len=(7, 8))
    out += _fuzz_shards(tier)
    out += [{"kind": "stacks", "n": 150 if tier == "quick" else 5000, "idx": i} for i in range(4)]
    return out


def _fuzz_shards(tier):
    runs = 30000 if tier == "quick" else 1500000
    n = 1 if tier == "quick" else 6
    return [{"kind": "atheris", "runs": runs, "idx": i} for i in range(n)]


def run_shard(spec, seed):
    if spec["kind"] == "atheris":
        import os

        from vlib import decode, fuzz
        from vlib.runner import ShardResult

        res = ShardResult()
        fuzz.run_atheris(
            res, f"c03-{spec['idx']}", os.path.join(os.path.dirname(__file__), "prog_fuzz.py"), ["C03"],
            spec["runs"], seed, seeds=FUZZ_SEEDS if spec["idx"] % 2 == 0 else (), nt=decode.in_typed_domain,
        )
        return res
    if spec["kind"] == "stacks":
        import pickle

        from hypothesis import strategies as st

        from vlib import asm, values, vocab
        from vlib.runner import ShardResult, hypothesis_search

        res = ShardResult()
        nat = st.tuples(st.one_of(values.plain_values(max_leaves=4), values.instance_values()),
                        st.sampled_from(range(6))).map(lambda t: _safe_dumps(pickle, *t))  # fmt: skip
        progs = asm.programs(asm.full_profile(vocab.ASM_GLOBS), max_len=10).map(lambda p: p.data)
        part = st.one_of(nat, progs, st.sampled_from(UNMODELLED_FIRST))

        def body(parts):
            f, klass = judge_stack(parts)
            odd = [i for i, p in enumerate(parts) if p in UNMODELLED_FIRST]
            res.note(b"|".join(parts), bool(odd) and odd != [0], klass=[klass, f"k={len(parts)}"],
                     sample={"parts": [p.hex()[:80] for p in parts]})  # fmt: skip
            return f

        hypothesis_search(st.lists(part, min_size=2, max_size=4), body, seed, spec["n"], res, batch=500)
        return res
    return _progdiff.run_shard(spec, seed, judge, nt_prog, nt_bytes)

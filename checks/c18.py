"""C18  CLI on stacked pickles: injection is local, decompilation is one valid program."""
import ast
import io
import os
import pickle
import re
import subprocess
import sys

from vlib import env, values
from vlib.refvm import Cyclic, canon_i, run_ref
from vlib.runner import Failure, HarnessError, ShardResult, hypothesis_search
from vlib.sandbox import Scratch
from vlib.stubexec import run_source

ID = "C18"
LEVEL = "exploration"
RULE = (
    "stacks of 1..5 generated pickles (plain values, helper-class instances, effectful objects, "
    "hand-assembled programs with sparse / repeated memo indices; "
    "protocols 0-5) x --inject-target 0..k (k = one past the end) x --run-last x "
    "--replace-result x input from a path argument or standard input, through cli.main() "
    "in-process with binary-backed sys.stdin/sys.stdout, plus a sample through a real "
    "`python -m fickling` subprocess. Oracle: target < k => exit 0 and stdout re-parses as exactly "
    "k pickles, all but the target byte-identical to the inputs, the target equal to the "
    "library-level insert_python_eval on the target's bytes with the same flags, and (independently "
    "of that helper) still loading with the stock unpickler to the input target's value, or to 2 "
    "with --replace-result; target == k => "
    "non-zero exit and empty stdout. Decompile: stdout compiles as one module that assigns "
    "result0..result{k-1} exactly once each, in order; no variable (any assigned name other than the results) assigned for one pickle is "
    "assigned or read for another; executed over inert stubs each result_i canonicalises equal to "
    "the reference VM's value for pickle i. The emitted target is also loaded from a stream and by the "
    "pure-Python unpickler; an injection the library itself refuses may fail, but then nothing may have been written. "
    "Non-trivial = k >= 2 with an inner target, or a "
    "decompiled stack in which >= 2 pickles create variables; distinct = distinct (stack, options)."
)
ASSUMPTIONS = [
    "negative --inject-target values are outside the stated quantifier (0..k)",
    "stacks use one consistent set of helper globals, so the attribute-name-collision finding "
    "KF-C03-1 cannot arise across pickles",
]


class _Out:
    """stand-in for sys.stdout with a binary .buffer"""

    def __init__(self):
        self.buffer = io.BytesIO()
        self._text = io.TextIOWrapper(self.buffer, encoding="utf-8", write_through=True)

    def write(self, s):
        return self._text.write(s)

    def flush(self):
        self._text.flush()

    def isatty(self):
        return False


def run_cli(argv, stdin_bytes=None):
    """(rc, stdout bytes, stderr text)"""
    from fickling import cli

    old = sys.stdin, sys.stdout, sys.stderr
    out = _Out()
    err = io.StringIO()
    sys.stdout, sys.stderr = out, err
    if stdin_bytes is not None:
        sys.stdin = io.TextIOWrapper(io.BytesIO(stdin_bytes))
    try:
        try:
            rc = cli.main(["fickling"] + argv)
        except SystemExit as e:
            rc = e.code if isinstance(e.code, int) else 1
        except RecursionError:
            rc = 1
        except Exception:  # noqa: BLE001 - an uncaught exception ends a real CLI run with status 1
            rc = 1
        out.flush()
        return rc, out.buffer.getvalue(), err.getvalue()
    finally:
        sys.stdin, sys.stdout, sys.stderr = old


# injected expressions: also ones that are nothing but a numeric literal
CODES = ("1+1", "12345", "1.5", "1e3", "'x'", "None", "0x10", "-7", "inf if False else 3",
         # 152 characters, 302 bytes of UTF-8
         "'" + "\u00e9" * 150 + "'",
         # the empty string is an --inject argument like any other (it is not "no --inject")
         "")


def code_for(parts):
    return CODES[sum(len(p) for p in parts) % len(CODES)]


def lib_inject(part, run_last, replace, code="1+1"):
    from fickling.fickle import Pickled

    p = Pickled.load(part)
    p.insert_python_eval(code, run_first=not run_last, use_output_as_unpickle_result=replace)
    return p.dumps()


def split_stack(data):
    from fickling.fickle import StackedPickle

    return [p.dumps() for p in StackedPickle.load(data)]


def check_inject(parts, target, run_last, replace, via_stdin, scratch, subprocess_mode=False):
    data = b"".join(parts)
    case = {"op": "inject", "parts": [p.hex() for p in parts], "target": target, "run_last": run_last,
            "replace": replace, "stdin": via_stdin, "subprocess": subprocess_mode}  # fmt: skip
    try:
        split_stack(data)  # only to learn whether fickling can parse these inputs at all
        code = code_for(parts)
    except Exception:  # noqa: BLE001 - fickling cannot parse these inputs: outside the domain
        return None
    refused = False
    try:
        want = lib_inject(parts[target], run_last, replace, code) if target < len(parts) else None
    except Exception:  # noqa: BLE001 - the library refuses this injection: so must the CLI, cleanly
        want, refused = None, True
    argv = ["--inject", code, "--inject-target", str(target)]
    if run_last:
        argv.append("--run-last")
    if replace:
        argv.append("--replace-result")
    path = os.path.join(scratch.path, "stack.pkl")
    with open(path, "wb") as f:
        f.write(data)
    if not via_stdin:
        argv.append(path)
    if subprocess_mode:
        e = dict(os.environ, PYTHONPATH=env.REPO)
        pr = subprocess.run(
            [sys.executable, "-m", "fickling"] + argv,
            input=data if via_stdin else None, capture_output=True, env=e, cwd=scratch.path,
        )  # fmt: skip
        rc, out = pr.returncode, pr.stdout
    else:
        rc, out, _err = run_cli(argv, data if via_stdin else None)

    def fail(msg):
        return Failure(case, f"--inject {code!r} --inject-target {target} on a stack of {len(parts)} (run_last={run_last}, replace={replace}, stdin={via_stdin}): {msg}")

    k = len(parts)
    if target >= k:
        if rc == 0:
            return fail("out-of-range target exited with status 0")
        if out:
            return fail(f"out-of-range target wrote {len(out)} bytes to stdout")
        return None
    if refused:
        # an injection the library cannot perform: the CLI may fail, but then it emits nothing
        # (never some of the pickles and a fragment of the target)
        if rc != 0 and out:
            return fail(f"the injection is refused (exit status {rc}) after {len(out)} bytes had already been written to stdout")
        return None
    if rc != 0:
        return fail(f"exit status {rc}")
    try:
        got = split_stack(out)
    except Exception as e:  # noqa: BLE001
        return fail(f"stdout is not a stack of pickles: {e!r}")
    if b"".join(got) != out:
        return fail("stdout has bytes beyond the emitted pickles")
    if len(got) != k:
        return fail(f"emitted {len(got)} pickles for {k} inputs")
    for i in range(k):
        if i != target and got[i] != parts[i]:
            return fail(f"pickle {i} (not the target) was altered")
    if got[target] != want:
        return fail("the target pickle differs from the library-level injection with the same flags")
    # ... and "the injection applied" means what it says, independently of the library helper: the
    # emitted target still loads, to the original object (or to the injected call's value)
    try:
        compile(code, "<inject>", "eval")
    except SyntaxError:
        return None  # not an expression: the emitted pickle is right (see above) and cannot load
    r0 = run_ref(parts[target])
    if r0.ok and r0.stack_at_stop != ([], []):
        return None  # the target leaves values below its result: the helpers' stack layout assumes it does not (as in C08)
    try:
        orig = pickle.loads(parts[target])
    except Exception:  # noqa: BLE001 - the input itself does not load: nothing to compare
        return None
    try:
        new = pickle.loads(got[target])
        # ... also when it is read from a stream, and by the pure-Python unpickler (which holds
        # FRAME lengths to their word)
        from_stream = pickle.load(io.BytesIO(got[target]))
        by_python = pickle._loads(got[target]) if b"verif_fn" not in got[target] else new
    except Exception as e:  # noqa: BLE001
        return fail(f"the emitted target pickle no longer loads: {type(e).__name__}: {e}")
    if not (_same(new, from_stream) and _same(new, by_python)):
        return fail(f"the emitted target loads to {new!r} from bytes, {from_stream!r} from a stream, {by_python!r} in pure Python")
    if replace:
        if not values.deep_equal(new, eval(code)):
            return fail(f"--replace-result: the emitted target loads to {new!r}, not to the value of the injected {code!r}")
    elif not _same(orig, new):
        return fail(f"the emitted target loads to {new!r} but the input's target loads to {orig!r}")
    return None


def _same(a, b):
    try:
        if values.deep_equal(a, b):
            return True
    except Exception:  # noqa: BLE001
        pass
    try:
        return bool(a == b) or repr(a) == repr(b)
    except Exception:  # noqa: BLE001
        return repr(a) == repr(b)


def check_decompile(parts, via_stdin, trace, scratch):
    data = b"".join(parts)
    case = {"op": "decompile", "parts": [p.hex() for p in parts], "stdin": via_stdin, "trace": trace}
    path = os.path.join(scratch.path, "stack.pkl")
    with open(path, "wb") as f:
        f.write(data)
    argv = [] if via_stdin else [path]
    rc, out, err = run_cli(argv, data if via_stdin else None)
    k = len(parts)

    def fail(msg):
        return Failure(case, f"decompiling a stack of {k}: {msg}", {"stdout": out.decode("utf-8", "replace")[:3000]})

    refs = []
    for part in parts:
        r = run_ref(part)
        if not r.ok:
            return None  # outside the domain
        refs.append(r)
    if rc != 0:
        return None  # refusal (unsupported opcode): allowed
    src = out.decode("utf-8")
    try:
        tree = ast.parse(src)
    except SyntaxError as e:
        return fail(f"stdout is not one valid Python program: {e}")
    # results assigned once each, in order
    assigned = []
    var_owner = {}
    seg = 0
    uses = {}
    for stmt in tree.body:
        targets = []
        if isinstance(stmt, ast.Assign):
            targets = [t.id for t in stmt.targets if isinstance(t, ast.Name)]
        names_read = {n.id for n in ast.walk(stmt) if isinstance(n, ast.Name) and isinstance(n.ctx, ast.Load)}
        for n in names_read:
            if not re.fullmatch(r"result\d*", n):
                uses.setdefault(n, set()).add(seg)
        for t in targets:
            if not re.fullmatch(r"result\d*", t):
                if t in var_owner:
                    return fail(f"variable {t} is assigned twice (pickles {var_owner[t]} and {seg})")
                var_owner[t] = seg
            m = re.fullmatch(r"result(\d*)", t)
            if m:
                assigned.append(t)
                seg += 1
    if assigned != [f"result{i}" for i in range(k)]:
        return fail(f"result names are {assigned}, expected result0..result{k - 1}")
    for n, segs in uses.items():
        if n in var_owner and segs - {var_owner[n]}:
            return fail(f"variable {n} of pickle {var_owner[n]} is read by pickle(s) {sorted(segs)}")
    ex = run_source(src)
    if not ex.ok:
        return fail(f"program does not run over stubs: {ex.phase}: {ex.error!r}")
    for i, r in enumerate(refs):
        try:
            want = canon_i(r.value)
            got = canon_i(ex.env.get(f"result{i}"))
        except Cyclic:
            continue
        if want != got:
            return fail(f"result{i} rebuilds {str(got)[:300]} but pickle {i} holds {str(want)[:300]}")
    return None


def replay(case):
    parts = [bytes.fromhex(p) for p in case["parts"]]
    with Scratch("c18") as scratch:
        if case["op"] == "inject":
            return check_inject(parts, case["target"], case["run_last"], case["replace"], case["stdin"],
                                scratch, case.get("subprocess", False))  # fmt: skip
        return check_decompile(parts, case["stdin"], case.get("trace", False), scratch)


def _parts():
    from hypothesis import strategies as st

    import verif_sink

    eff = st.sampled_from(["e1", "e2"]).map(verif_sink.Effect)
    v = st.one_of(values.plain_values(max_leaves=5), values.instance_values(), eff)
    small = st.tuples(v, st.sampled_from(range(6))).map(lambda t: _dumps(*t))
    big = st.tuples(values.multi_frame_values(), st.sampled_from([4, 5])).map(lambda t: _dumps(*t))
    # hand-assembled targets whose memo is written sparsely or twice at the same index
    odd_memo = st.sampled_from([b"\x80\x04\x95\x00\x00\x00\x00\x00\x00\x00\x00\x95\x05\x00\x00\x00\x00\x00\x00\x00]K\x01a.",  # two adjacent FRAMEs
                                b"]q\x00Nq\x000.", b"(lp1\nI1\nap1\n.", b"\x80\x02]q\x00(K\x01K\x02eq\x00.",
                                b"\x80\x02}q\x05(K\x01]q\x05K\x02h\x05u.", b"\x80\x04\x8c\x01a\x94\x8c\x01b\x94q\x000h\x01\x86."])  # fmt: skip
    # values left on the stack below the result at STOP (legal; only hand-built)
    leftovers = st.sampled_from([b"K\x01K\x02.", b"(K\x01K\x02.", b"NN].", b"\x80\x02K\x05]q\x00."])
    # header-less members whose first opcode is written in a way the encoders would not choose
    # (text booleans, zero-padded / L-suffixed numbers, double-quoted and escaped strings)
    unfaithful_first = st.sampled_from([b"I01\n.", b"I00\n.", b"I+7\n.", b"L5L\n.", b"L5\n.", b'S"a"\n.',
                                        b"V\\u0061\n.", b"I01\n]\x94.", b"(I01\nI00\nl."])  # fmt: skip
    # globals whose module / class names are not ASCII (legal identifiers; protocol 4 spelling)
    def sg(module, name):
        m, n = module.encode(), name.encode()
        return b"\x80\x04\x8c" + bytes([len(m)]) + m + b"\x8c" + bytes([len(n)]) + n + b"\x93"

    non_ascii = st.sampled_from([sg("m\u00f3dulo", "Cl\u00e4s") + b")R.", sg("verif_sink", "\u0394elta") + b".",
                                 sg("\u6a21\u5757", "\u7c7b") + b")R\x94]\x94h\x00a."])
    return st.one_of(*([small] * 8), big, odd_memo, leftovers, unfaithful_first, non_ascii)


def _dumps(v, proto):
    try:
        return pickle.dumps(v, protocol=proto)
    except Exception:  # noqa: BLE001
        return b"N."


def _creates_vars(part):
    import pickletools

    return any(op.name in ("REDUCE", "BUILD", "NEWOBJ", "OBJ", "INST", "NEWOBJ_EX") for op, _, _ in pickletools.genops(part))


def shards(tier):
    per = 150 if tier == "quick" else 2500
    out = [{"kind": "inject", "n": per, "idx": i} for i in range(8)]
    out += [{"kind": "decompile", "n": per, "idx": i} for i in range(7)]
    out += [{"kind": "subprocess", "n": 6 if tier == "quick" else 60, "idx": 0}]
    return out


def run_shard(spec, seed):
    from hypothesis import strategies as st

    res = ShardResult()
    stacks = st.lists(_parts(), min_size=1, max_size=5)
    with Scratch(f"c18-{spec['kind']}") as scratch:
        if spec["kind"] in ("inject", "subprocess"):
            sub = spec["kind"] == "subprocess"

            def body(parts):
                k = len(parts)
                for target in range(k + 1):
                    for run_last in (False, True):
                        for replace in (False, True):
                            for via_stdin in (False, True):
                                if sub and (run_last or replace) and target not in (0, k):
                                    continue
                                f = check_inject(parts, target, run_last, replace, via_stdin, scratch, sub)
                                res.note(
                                    ([p.hex() for p in parts], target, run_last, replace, via_stdin, sub),
                                    k >= 2 and (0 < target < k - 1 or target == k or k == 2),
                                    klass=[f"k={k}", "out-of-range" if target == k else "in-range",
                                           "stdin" if via_stdin else "path", "subprocess" if sub else "inproc"],
                                    sample={"parts": [p.hex() for p in parts], "target": target,
                                            "run_last": run_last, "replace": replace, "stdin": via_stdin},
                                )  # fmt: skip
                                if f is not None:
                                    return f
                return None

            hypothesis_search(stacks, body, seed, spec["n"], res, batch=250)
        else:

            def body(parts):
                for via_stdin in (False, True):
                    f = check_decompile(parts, via_stdin, False, scratch)
                    res.note(
                        ([p.hex() for p in parts], via_stdin),
                        sum(_creates_vars(p) for p in parts) >= 2,
                        klass=[f"k={len(parts)}", "decompile"],
                        sample={"decompile": [p.hex() for p in parts], "stdin": via_stdin},
                    )
                    if f is not None:
                        return f
                return None

            hypothesis_search(stacks, body, seed, spec["n"], res, batch=250)
    _ = HarnessError
    return res

"""Child of C01's fresh-process shard: in an interpreter that has imported nothing but fickling
itself, run one entry point on one input file and report which modules that made appear.

argv: REPO HELPERS ENTRY PATH.  Prints one JSON object on the last line of stdout."""
import io
import json
import os
import sys


def main():
    repo, helpers, entry, path = sys.argv[1:5]
    sys.path.insert(0, helpers)
    sys.path.insert(0, repo)
    import fickling  # noqa: F401
    from fickling import cli
    from fickling.analysis import check_safety
    from fickling.fickle import Pickled, StackedPickle

    assert os.path.realpath(os.path.dirname(os.path.dirname(fickling.__file__))) == os.path.realpath(repo)
    before = set(sys.modules)
    out, err = sys.stdout, sys.stderr
    sys.stdout = io.StringIO()
    sys.stderr = io.StringIO()
    outcome = "returned"
    try:
        if entry == "is_likely_safe":
            fickling.is_likely_safe(path)
        elif entry == "check_safety":
            with open(path, "rb") as f:
                check_safety(Pickled.load(f))
        elif entry == "stacked+ast":
            with open(path, "rb") as f:
                for p in StackedPickle.load(f):
                    p.ast
                    check_safety(p)
        elif entry == "cli":
            cli.main(["fickling", path])
        elif entry == "cli --check-safety":
            cli.main(["fickling", "--check-safety", "--json-output", path + ".report.json", path])
        else:
            raise SystemExit(f"unknown entry {entry}")
    except BaseException as e:  # noqa: BLE001 - refusing the input is fine
        outcome = "raised " + type(e).__name__
    finally:
        sys.stdout, sys.stderr = out, err
    new = sorted(set(sys.modules) - before)
    print(json.dumps({"new": new, "outcome": outcome, "before_roots": sorted({m.split(".")[0] for m in before})}))


if __name__ == "__main__":
    main()

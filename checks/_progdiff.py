"""Shared drivers for the program-level differentials (C03, C05).

Three generators feed one oracle callback `judge(data, prog_or_None) ->
(Failure|None, klass)`:
  enum     bounded-exhaustive typed programs over the focus alphabet
  random   Hypothesis programs over the full alphabet with all encodings
  natural  pickle.dumps of generated values (plain + instances) at protocols 0-5
"""
import pickle
import pickletools

from vlib import asm, vocab
from vlib.runner import ShardResult, hypothesis_search

CALL_NAMES = {"REDUCE", "OBJ", "INST", "NEWOBJ", "NEWOBJ_EX", "BUILD", "BINPERSID", "PERSID"}


def op_names(data):
    try:
        return [op.name for op, _, _ in pickletools.genops(data)]
    except Exception:  # noqa: BLE001
        return []


HUGE_INTS = (2**12900, -(2**12900), 2**12901 - 1, -(2**12901), -(2**14000), [-(2**13000), "a", 2**13000],
             10**4299, -(10**4299), 10**4300, -(10**4300), 10**5000, -(10**5000), {"k": (-(2**20000) - 1, [1])})


def shards(tier, quick_len=4, thorough_len=6, quick_random=350, thorough_random=6000,
           quick_natural=120, thorough_natural=2500, container_len=None, alias_len=None,
           kwargs_len=None):  # fmt: skip
    n = 16
    L = quick_len if tier == "quick" else thorough_len
    out = [{"kind": "enum", "L": L, "depth": 2, "part": i, "nparts": n} for i in range(n)]
    out[0]["short"] = True
    for name, lens in (("containers", container_len), ("aliasing", alias_len), ("kwargs", kwargs_len)):
        if lens:
            Lc = lens[0] if tier == "quick" else lens[1]
            extra = [{"kind": "enum", "alphabet": name, "L": Lc, "depth": 2, "part": i, "nparts": n}
                     for i in range(n)]  # fmt: skip
            extra[0]["short"] = True
            if name == "kwargs":
                # only the programs that reach NEWOBJ_EX are of interest (the rest is a subset of
                # what the focus alphabet already enumerates)
                for e in extra:
                    e["require"] = "\x92"
            out += extra
    # product cells (vlib/cells.py): resolving opcode x call opcode x callee shape (incl. a memo
    # slot written twice) x fate of the value x framing, over two harmless globals
    out += [{"kind": "cells", "tier": tier, "part": i, "nparts": 8} for i in range(8)]
    # one attribute name in two modules, every global dead before the next one is resolved
    out += [{"kind": "dupkeys"}, {"kind": "ext"}]
    out += [{"kind": "rebinding", "part": i, "nparts": 4, "k": 3 if tier == "quick" else 4} for i in range(4)]
    per = quick_random if tier == "quick" else thorough_random
    out += [{"kind": "random", "n": per, "idx": i} for i in range(16)]
    pern = quick_natural if tier == "quick" else thorough_natural
    out += [{"kind": "natural", "n": pern, "idx": i} for i in range(8)]
    return out


def dupkey_programs():
    """hand-written container builders whose items collide or are out of order (equal keys in one
    DICT / SETITEMS / SETITEM run, equal set elements), handed to every call-making opcode and to
    BUILD: the VM keeps the last value of a key, and so must the program"""
    import struct

    K = lambda n: b"K" + bytes([n])  # noqa: E731
    S = lambda t: b"S'" + t.encode() + b"'\n"  # noqa: E731
    T, F0 = b"\x88", b"G" + struct.pack(">d", 0.0)
    pair_sets = (
        [(K(1), S("a")), (K(1), S("b"))], [(K(1), S("a")), (T, S("b"))], [(T, S("a")), (K(1), S("b")), (K(2), S("c"))],
        [(S("a"), K(1)), (S("a"), K(2)), (S("b"), K(3))], [(K(0), S("x")), (F0, S("y"))], [(K(2), S("a")), (K(1), S("b"))],
        [(K(3), S("a")), (K(1), S("b")), (K(3), S("c")), (K(2), S("d"))],
    )
    for pairs in pair_sets:
        flat = b"".join(k + v for k, v in pairs)
        builders = {
            "DICT": b"(" + flat + b"d",
            "SETITEMS": b"}(" + flat + b"u",
            "SETITEM": b"}" + b"".join(k + v + b"s" for k, v in pairs),
            "DICT+SETITEMS": b"(" + flat + b"d(" + b"".join(k + v for k, v in reversed(pairs)) + b"u",
        }
        for bname, d in builders.items():
            contexts = {
                "REDUCE": b"cverif_sink\nsink\n(" + d + b"tR.",
                "OBJ": b"(cverif_sink\nsink\n" + d + b"o.",
                "INST": b"(" + d + b"iverif_sink\nsink\n.",
                "NEWOBJ": b"\x80\x02cverif_objs\nNewArgs\n(" + d + b"t\x81.",
                "BUILD": b"cverif_objs\nPlain\n)R" + (b"(" + b"".join(S("k%d" % i) + v for i, (_, v) in enumerate(pairs))
                                                      + S("k0") + K(9) + b"d") + b"b.",
                "nested": b"cverif_sink\nsink\n(]" + d + b"a" + d + b"tR.",
            }
            for cname, data in contexts.items():
                yield (bname, cname), data


EXT_REGISTRY = (("verif_sink", "sink", 0x42), ("os", "getpid", 300), ("collections", "OrderedDict", 70000))


class ext_registry:
    """context manager: the extension registry holds EXT_REGISTRY while the block runs"""

    def __enter__(self):
        import copyreg

        for m, nm, code in EXT_REGISTRY:
            copyreg.add_extension(m, nm, code)

    def __exit__(self, *a):
        import copyreg

        for m, nm, code in EXT_REGISTRY:
            copyreg.remove_extension(m, nm, code)
        copyreg._extension_cache.clear()


def ext_programs():
    """globals reached through the extension registry (copyreg.add_extension; EXT1/EXT2/EXT4): the
    VM resolves the registered (module, name) - the program must show that import and call, or
    the pickle is refused"""
    import struct

    codes = {0x42: b"\x82\x42", 300: b"\x83" + struct.pack("<H", 300), 70000: b"\x84" + struct.pack("<i", 70000)}
    for _m, _n, code in EXT_REGISTRY:
        e = codes[code]
        for proto in (b"", b"\x80\x02", b"\x80\x04"):
            yield proto + e + b")R."
            yield proto + e + b"(K\x01tR."
            yield proto + b"(" + e + b"K\x01o."
            yield proto + e + b"."
            yield proto + b"]" + e + b"a."
            yield proto + e + b"q\x00)Rh\x00\x86."


def rebinding_program(seq):
    """units (module, use, resolving opcode) over ONE attribute name `f` in two modules; each unit
    consumes its global before the next is resolved (no earlier same-named global stays reachable)"""
    out = [b"("]
    for j, (module, use, how) in enumerate(seq):
        arg = b"K" + bytes([j + 1])
        if how == "INST":
            # INST resolves and calls in one opcode
            out.append(b"(" + arg + f"i{module}\nf\n".encode())
            if use in ("call_pop", "resolve_pop"):
                out.append(b"0")
            continue
        if how == "GLOBAL":
            resolve = f"c{module}\nf\n".encode()
        else:
            resolve = b"\x8c" + bytes([len(module)]) + module.encode() + b"\x8c\x01f\x93"
        if use == "resolve_pop":
            out.append(resolve + b"0")
        elif use == "call_arg":
            # the global itself is the argument of a call of a third, unrelated global
            out.append(b"cverif_objs\nmake\n" + resolve + b"\x85R")
        else:
            out.append(resolve + arg + b"\x85R")
            if use == "call_pop":
                out.append(b"0")
    out.append(b"t.")
    return b"".join(out)


def run_shard(spec, seed, judge, nt_prog, nt_bytes, focus=None, full=None):
    res = ShardResult()
    if spec["kind"] == "enum":
        prof = asm.ENUM_PROFILES[spec["alphabet"]]() if spec.get("alphabet") else (focus or asm.focus_profile())
        pres = asm.prefixes(prof, spec["depth"])
        mine = pres[spec["part"] :: spec["nparts"]]

        def progs():
            if spec.get("short"):
                yield from asm.enumerate_short(prof, spec["depth"])
            for pre in mine:
                yield from asm.enumerate_from(prof, pre, spec["L"])

        n = 0
        req = spec.get("require", "").encode("latin-1")
        for prog in progs():
            if req and req not in prog.data:
                continue
            f, klass = judge(prog.data, prog)
            res.note(None, nt_prog(prog), klass=klass, sample={"enum": prog.data.hex()})
            res.excluded.update(prog.excluded)
            n += 1
            if f is not None:
                res.failures.append(f)
                break
        res.extra["enumerated_programs"] = n
        res.exhaustive = True
        key = "exhaustive_subspace_" + spec["alphabet"] if spec.get("alphabet") else "exhaustive_subspace"
        res.info[key] = (
            f"all typed programs over the {len(prof.ops)}-op {spec.get('alphabet', 'focus')} alphabet "
            f"with <= {spec['L']} opcodes before STOP (count in enumerated_programs)"
            + (" that contain NEWOBJ_EX" if req else "")
        )
    elif spec["kind"] == "cells":
        from vlib import cells

        framings = ("bare", "proto4_frame") if spec["tier"] == "quick" else cells.FRAMING
        n = 0
        for i, cell in enumerate(cells.all_cells([("verif_objs", "make"), ("collections", "OrderedDict")],
                                                 framings=framings)):  # fmt: skip
            if i % spec["nparts"] != spec["part"]:
                continue
            try:
                data = cells.build(cell)
            except cells.Skip as e:
                res.excluded[f"not-constructible:{e}"] += 1
                continue
            f, klass = judge(data, None)
            n += 1
            res.note(None, cell["callee"] != "global" or cell["disposal"] != "result",
                     klass=[klass, "cell", "callee:" + cell["callee"]], sample={"cell": cell, "hex": data.hex()})  # fmt: skip
            if f is not None:
                f.case["cell"] = cell
                res.failures.append(f)
                break
        res.exhaustive = True
        res.extra["product_cells"] = n
    elif spec["kind"] == "ext":
        with ext_registry():
            n = 0
            for data in ext_programs():
                f, klass = judge(data, None)
                n += 1
                res.note(None, True, klass=[klass, "ext"], sample={"ext": data.hex()})
                if f is not None:
                    f.case["ext_registry"] = True
                    res.failures.append(f)
                    break
            res.extra["ext_programs"] = n
    elif spec["kind"] == "dupkeys":
        n = 0
        for tag, data in dupkey_programs():
            f, klass = judge(data, None)
            n += 1
            res.note(None, True, klass=[klass, "dupkeys"], sample={"dupkeys": list(tag), "hex": data.hex()})
            if f is not None:
                res.failures.append(f)
                break
        res.extra["dupkey_programs"] = n
    elif spec["kind"] == "rebinding":
        import itertools

        units = list(itertools.product(("mod_a", "mod_b"), ("call_pop", "call_keep", "resolve_pop", "call_arg"),
                                       ("GLOBAL", "STACK_GLOBAL", "INST")))  # fmt: skip
        n = 0
        for k in range(2, spec["k"] + 1):
            for i, seq in enumerate(itertools.product(units, repeat=k)):
                if i % spec["nparts"] != spec["part"]:
                    continue
                if len({u[0] for u in seq}) < 2:
                    continue
                data = rebinding_program(seq)
                f, klass = judge(data, None)
                n += 1
                res.note(None, True, klass=[klass, "rebinding"], sample={"units": [list(u) for u in seq], "hex": data.hex()})
                if f is not None:
                    res.failures.append(f)
                    res.extra["rebinding_programs"] = n
                    return res
        res.exhaustive = True
        res.extra["rebinding_programs"] = n
    elif spec["kind"] == "random":
        if spec["idx"] % 4 == 3 and full is None:
            # the same attribute name in two modules, the second resolved once the first is dead
            prof = asm.full_profile(vocab.ASM_GLOBS_COLLIDING, rebind_dead_names=True)
        elif spec["idx"] % 4 == 1 and full is None:
            # Python-2 spellings (renamed by the unpickler below protocol 3 only)
            prof = asm.full_profile(vocab.ASM_GLOBS + vocab.ASM_GLOBS_PY2)
        else:
            prof = full or asm.full_profile(vocab.ASM_GLOBS)

        def body(prog):
            f, klass = judge(prog.data, prog)
            kl = [klass] + sorted(t for t in prog.tags if t.startswith(("call:", "disp:")))
            res.note(prog.data, nt_prog(prog), klass=kl, sample={"random": prog.data.hex()})
            res.excluded.update(prog.excluded)
            return f

        hypothesis_search(asm.programs(prof, max_len=30), body, seed, spec["n"], res, batch=500)
    elif spec["kind"] == "natural":
        from hypothesis import strategies as st

        from vlib import values

        strat = st.one_of(values.plain_values(), values.instance_values())

        def _repr(v):
            try:
                return repr(v)[:200]
            except ValueError:  # beyond the interpreter's int -> str digit limit
                return f"<{type(v).__name__} whose repr exceeds the int/str digit limit>"

        def body(v):
            for proto in range(6):
                try:
                    data = pickle.dumps(v, protocol=proto)
                except Exception:  # noqa: BLE001
                    continue
                f, klass = judge(data, None)
                res.note(
                    data,
                    nt_bytes(data),
                    klass=[klass, f"natural-proto{proto}"],
                    sample={"natural": data.hex()[:400], "value": _repr(v)},
                )
                if f is not None:
                    return f
            return None

        if spec["idx"] == 0:
            # integers around and beyond the interpreter's int/str digit limit (4300 digits, about
            # 14285 bits), both signs: printed right or refused, never printed as another number
            for v in HUGE_INTS:
                f = body(v)
                if f is not None:
                    res.failures.append(f)
                    return res
        hypothesis_search(strat, body, seed, spec["n"], res, batch=500)
    else:
        raise ValueError(spec)
    return res

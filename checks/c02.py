"""C02  Checked load is fail-closed and loads exactly the bytes it analysed."""
import io
import os
import pickle
import sys

from vlib import values
from vlib.runner import Failure, ShardResult, hypothesis_search
from vlib.sandbox import Monitor, Scratch, reset_pickle_bindings

ID = "C02"
LEVEL = "fault_enumeration"
RULE = (
    "product of payload family (benign values; harmless flagged payloads at each severity: "
    "unused variable, verif_sink.sink(tag), os.getpid(), eval('1+1'); inputs on which analysis "
    "raises: truncations, garbage, stack underflow, memo miss, STACK_GLOBAL with non-string "
    "operands, unsupported opcodes) x stream kind (bytes, BytesIO, real file, seekable raw "
    "stream, non-seekable stream, flip stream that switches to same-length malicious content "
    "between analysis and load) x accepted-severity threshold (all six) x arming path "
    "(fickling.load; always_check_safety() + pickle.load with/without threshold; the safety "
    "context manager; the global hook after an inner context has exited; an outer context after "
    "a nested one has exited; a context after an ML-environment activate/deactivate cycle) x injected fault (none; the analysis call made by the loader raising "
    "ValueError / KeyError / AttributeError / RecursionError / MemoryError) x unpickler keyword "
    "arguments (none, encoding=latin1/bytes, fix_imports=False, errors=strict; compared with the "
    "stock unpickler under the same arguments). Oracle: verdict v "
    "taken separately (plus the payload's documented floor, known by construction), ranks by own "
    "table; returned => rank(v) <= rank(T), value and sink log "
    "equal to the stock unpickler's on the same bytes; rank(v) > rank(T) => UnsafeFileError with "
    "info['severity'] == v; where the path honours T, rank(v) <= rank(T) => returns; every "
    "non-return leaves the sink log empty, raises no pickle.find_class audit event and imports no "
    "module the pickle names (importable-but-unloaded canary module and dotted canary package); a flip "
    "stream must behave as its pre-flip (benign) content. Non-trivial = verdict above "
    "LIKELY_SAFE, or flip / non-seekable stream, or an injected fault, or analysis raises; "
    "distinct = distinct (bytes, stream, threshold, path, fault)."
    ' Further dimensions added after seeding rounds 5-7: streams handed over at an offset (real'
    ' file, mmap); payloads naming importable-but-unloaded canary modules (no import on refusal);'
    ' unpickler keyword arguments on every path; bytes that are not a complete pickle per'
    ' pickletools (nothing may ever be resolved on them); an accepted outer pickle that performs a'
    ' nested pickle.load of a flagged stream under an armed check; a lenient with-block that has'
    ' come and gone.'
)
ASSUMPTIONS = [
    "the context manager's threshold argument is not varied (its API does not honour one); only "
    "the one-sided 'returned => verdict acceptable' is asserted there",
    "the flip adversary acts between analysis and load (harness hook at the loader's analysis "
    "call); the stronger 'content changes after the first read of each byte' adversary is the "
    "open known finding KF-C02-1 and is replayed, not searched",
    "every payload handed to the real unpickler is harmless when executed (sink, getpid, eval "
    "of a literal, plain values)",
]

RANK = {"LIKELY_SAFE": 0, "POSSIBLY_UNSAFE": 1, "SUSPICIOUS": 2, "LIKELY_UNSAFE": 3,
        "LIKELY_OVERTLY_MALICIOUS": 4, "OVERTLY_MALICIOUS": 5}  # fmt: skip
THRESHOLDS = tuple(RANK)
STREAMS = ("bytes", "bytesio", "file", "raw_seekable", "non_seekable", "flip", "file_offset", "mmap_offset",
           "file_rewritten", "fd_file", "bytesio_offset")
PATHS = ("loader", "hook", "hook_threshold", "context", "hook_after_context", "hook_after_lenient_context", "outer_context_after_inner",
         "context_after_ml_cycle")
FAULTS = (None, "ValueError", "KeyError", "AttributeError", "RecursionError", "MemoryError")

FLAGGED = (
    b"ccollections\nOrderedDict\n)R0N.",  # unused variable
    b"cverif_sink\nsink\n(S'tag1'\ntR.",
    b"\x80\x04\x8c\nverif_sink\x8c\x04sink\x93\x8c\x04tag2\x85R.",
    b"(S'tag3'\niverif_sink\nsink\n.",
    b"cos\ngetpid\n)R.",
    b"cposix\ngetpid\n)R.",
    b"cbuiltins\neval\n(S'1+1'\ntR.",
    b"c__builtin__\neval\n(V1+1\ntR0cverif_sink\nsink\n(S'tag4'\ntR.",
    b"\x80\x02\x80\x02]q\x00.",  # duplicate PROTO
    b"cverif_sink\nsink\n)R0]q\x00(K\x01K\x02e.",  # flagged call hidden before benign data
    b"(cverif_sink\nsink\nS'tag5'\no.",
    b"cverif_sink\nsink\n)\x81.",
    # modules that are importable but not yet imported (a top-level one and a dotted one whose
    # parent package would have to be imported to even locate it)
    b"cverif_canary\nfire\n(S'x'\ntR.",
    b"cverif_canary_pkg.sub\nthing\n)R.",
    b"\x80\x04\x8c\x1bverif_canary_pkg.sub.deeper\x8c\x01x\x93.",
)
CANARY_ROOTS = ("verif_canary", "verif_canary_pkg")
_INNER = b"cverif_sink\nsink\n(S'nested'\ntR."
# argparse.Namespace() whose state is {'v': pickle.load(io.BytesIO(<flagged stream>))} (the outer
# pickle alone is rated LIKELY_SAFE: standard-library callables only), and a list variant
NESTED = (
    b"cargparse\nNamespace\n)R}Vv\ncpickle\nload\n(cio\nBytesIO\n(B" + len(_INNER).to_bytes(4, "little") + _INNER + b"tRtRsb.",
    b"(cpickle\nload\n(cio\nBytesIO\n(B" + len(_INNER).to_bytes(4, "little") + _INNER + b"tRtRl.",
)
PY2_STYLE = (
    b"\x80\x02U\x03abcq\x00.",  # SHORT_BINSTRING: str or bytes depending on `encoding`
    b"c__builtin__\nset\nq\x00]q\x01K\x01a\x85q\x02Rq\x03.",  # needs fix_imports to resolve
    b"\x80\x02]q\x00(U\x01aU\x02bce.",
    b"(lp0\nS'x'\np1\naS'y'\np2\na.",
)
KWARGS = ({}, {}, {}, {"encoding": "latin1"}, {"encoding": "bytes"}, {"fix_imports": False}, {"errors": "strict"})
# floors of the flagged payloads by the documented rules (C04), independent of what the
# analysis under test says on this particular call: a load may only return if the accepted
# severity is at least this
FLOORS = {1: 3, 2: 3, 3: 3, 4: 4, 5: 4, 6: 5, 7: 5, 9: 3, 10: 3, 11: 3, 12: 3, 13: 3, 14: 3}


_STRUCTURAL = ("pop from empty list", "could not find MARK", "Memo value not found", "odd number of items",
               "stack underflow", "list index out of range")  # fmt: skip


def _structurally_invalid(data):
    from vlib.refvm import run_ref

    if not _complete(data):
        return False
    r = run_ref(data)
    return (not r.ok) and any(k in str(r.error) for k in _STRUCTURAL)


def _complete(data):
    """does `data` start with a complete pickle (ends in STOP, every opcode well formed)?"""
    import pickletools

    try:
        for op, _arg, _pos in pickletools.genops(data):
            if op.name == "STOP":
                return True
    except Exception:  # noqa: BLE001
        return False
    return False


def _forget_canaries():
    for m in [m for m in sys.modules if m.split(".")[0] in CANARY_ROOTS]:
        del sys.modules[m]


def floor_for(data):
    best = 0
    for i, f in FLOORS.items():
        if data.startswith(FLAGGED[i]):
            best = max(best, f)
    return best


ANALYSIS_RAISES = (
    b"(cverif_sink\nsink\nd.",  # DICT with an odd number of items, after a global was named
    b"(ccolorsys\nrgb_to_hls\nd.",
    b"(cverif_sink\nsink\n(S'odd'\ntRNu.",  # SETITEMS with an odd number of items, after a call
    b"cverif_sink\nsink\n(S'memo'\ntRh\x07.",  # unset memo key after a call
    b"cverif_sink\nsink\n)R00.",  # stack underflow after a call
    b"",
    b"garbage!",
    b"0.",  # stack underflow
    b"h\x05.",  # memo miss
    b"K\x01K\x02\x93.",  # STACK_GLOBAL with non-string operands
    b"F1.5\n.",  # FLOAT: not implemented
    b"Ppid\n.",  # PERSID: not implemented
    b"\x96\x00\x00\x00\x00\x00\x00\x00\x00.",  # BYTEARRAY8
    b"cverif_sink\nsink\n(S'tagX'\ntR",  # truncated before STOP
    b"cverif_sink\nsink\n(S'tagY'\ntRF1.0\n.",  # flagged call followed by unsupported opcode
    b"(cverif_sink\nsink\nS'tagZ'\nob",  # truncated
    b"]q\x00h\x00a.",  # cyclic list
    # the stock unpickler accepts these, fickling's analysis cannot even tokenise / model them:
    "cverif_sink\ns\u00ednk\n(S'tagU'\ntR.".encode("utf-8"),  # non-ASCII global name first
    b"F1.5\n0cverif_sink\nsink\n(S'tagF'\ntR.",  # unsupported FLOAT first, then a call
    b"\x96\x01\x00\x00\x00\x00\x00\x00\x00x0cverif_sink\nsink\n(S'tagB'\ntR.",  # BYTEARRAY8 first
    b"cverif_sink\nsink\n(S'tagP'\ntRPpid\n.",  # call, then PERSID
    b"(cverif_sink\nsink\nS'tagA'\no]\x94(K\x01e\x81.",
)
MALICIOUS = b"cverif_sink\nsink\n(S'pwn'\ntR."


def benign_same_length(n):
    body = b"a" * (n - 5)
    out = b"S'" + body + b"'\n."
    assert len(out) == n
    return out


class RawSeekable:
    def __init__(self, data):
        self._b = io.BytesIO(data)

    def read(self, n=-1):
        return self._b.read(n)

    def readline(self):
        return self._b.readline()

    def readinto(self, b):
        return self._b.readinto(b)

    def seek(self, pos, whence=0):
        return self._b.seek(pos, whence)

    def tell(self):
        return self._b.tell()

    def seekable(self):
        return True


class NonSeekable:
    def __init__(self, data):
        self._b = io.BytesIO(data)

    def read(self, n=-1):
        return self._b.read(n)

    def readline(self):
        return self._b.readline()

    def readinto(self, b):
        return self._b.readinto(b)

    def seekable(self):
        return False


class FlipStream(RawSeekable):
    """serves `first` until flip() is called, then `second` (same length)"""

    def __init__(self, first, second):
        super().__init__(first)
        self._second = second
        self.flipped = False

    def flip(self):
        if not self.flipped:
            pos = self._b.tell()
            self._b = io.BytesIO(self._second)
            self._b.seek(pos)
            self.flipped = True


class DoubleReadFlip:
    """KF-C02-1 adversary: every byte offset serves `first` the first time it is read and
    `second` afterwards (content changes after the first pass)."""

    def __init__(self, first, second):
        self._a, self._b2, self._pos, self._seen = first, second, 0, set()

    def _serve(self, n):
        end = len(self._a) if n is None or n < 0 else min(len(self._a), self._pos + n)
        out = bytearray()
        for i in range(self._pos, end):
            out.append(self._b2[i] if i in self._seen else self._a[i])
            self._seen.add(i)
        self._pos = end
        return bytes(out)

    def read(self, n=-1):
        return self._serve(n)

    def readline(self):
        cur = self._pos
        src = bytes(self._b2[i] if i in self._seen else self._a[i] for i in range(cur, len(self._a)))
        j = src.find(b"\n")
        return self._serve(len(src) if j < 0 else j + 1)

    def seek(self, pos, whence=0):
        self._pos = pos if whence == 0 else (self._pos + pos if whence == 1 else len(self._a) + pos)
        return self._pos

    def tell(self):
        return self._pos

    def seekable(self):
        return True


def verdict_of(data):
    """('ok', name) or ('raises', exception type name)"""
    from fickling.analysis import check_safety
    from fickling.fickle import Pickled

    try:
        return ("ok", check_safety(Pickled.load(data)).severity.name)
    except RecursionError:
        return ("raises", "RecursionError")
    except Exception as e:  # noqa: BLE001
        return ("raises", type(e).__name__)


def stock(data, kwargs=None):
    """what the stock unpickler does with the (harmless) bytes: (value, sink log) or None"""
    import verif_sink

    verif_sink.reset()
    try:
        v = env_orig_loads(data, **(kwargs or {}))
    except Exception:  # noqa: BLE001
        verif_sink.reset()
        return None
    log = list(verif_sink.LOG)
    verif_sink.reset()
    return v, log


def env_orig_loads(data, **kwargs):
    from vlib import env

    return env.PICKLE_ORIG[1](data, **kwargs)


def make_stream(kind, data, scratch, flip_to=None):
    if kind == "bytes":
        return data, None
    if kind == "bytesio":
        return io.BytesIO(data), None
    if kind == "file":
        path = os.path.join(scratch.path, "c02.pkl")
        with open(path, "wb") as f:
            f.write(data)
        fh = open(path, "rb")
        return fh, fh
    if kind == "file_rewritten":
        # the same path held a benign pickle of the same length, was loaded through the checked
        # loader, and was then overwritten in place (same inode, size and timestamps)
        import fickling

        path = os.path.join(scratch.path, "c02-rewritten.pkl")
        with open(path, "wb") as f:
            # (shorter than any text pickle: pad a NONE pickle with POP/NONE pairs)
            first = benign_same_length(len(data)) if len(data) >= 6 else (b"N" + b"0N" * len(data))[: max(len(data) - 1, 1)] + b"."
            f.write(first if len(first) == len(data) else data)
        st0 = os.stat(path)
        try:
            with open(path, "rb") as f:
                fickling.load(f)
        except Exception:  # noqa: BLE001
            pass
        with open(path, "r+b") as f:
            f.write(data)
        os.utime(path, ns=(st0.st_atime_ns, st0.st_mtime_ns))
        fh = open(path, "rb")
        return fh, fh
    if kind == "fd_file":
        # a stream opened from a file descriptor: its .name is an integer
        path = os.path.join(scratch.path, "c02-fd.pkl")
        with open(path, "wb") as f:
            f.write(data)
        fh = os.fdopen(os.open(path, os.O_RDONLY), "rb")
        return fh, fh
    if kind == "bytesio_offset":
        # an in-memory buffer holding another (flagged) record first, handed over positioned on
        # the pickle
        head = b"cverif_sink\nsink\n(S'record in front of the position'\ntR."
        b = io.BytesIO(head + data)
        b.seek(len(head))
        return b, None
    if kind in ("file_offset", "mmap_offset"):
        # the pickle is the second record of a file; the stream is handed over positioned on it
        import mmap

        head = pickle.dumps(["header record", 1, 2, 3], protocol=2)
        path = os.path.join(scratch.path, "c02-records.bin")
        with open(path, "wb") as f:
            f.write(head + data)
        fh = open(path, "rb")
        if kind == "file_offset":
            fh.seek(len(head))
            return fh, fh
        mm = mmap.mmap(fh.fileno(), 0, access=mmap.ACCESS_READ)
        mm.seek(len(head))

        class Both:
            def close(self):
                mm.close()
                fh.close()

        return mm, Both()
    if kind == "raw_seekable":
        return RawSeekable(data), None
    if kind == "non_seekable":
        return NonSeekable(data), None
    if kind == "flip":
        return FlipStream(data, flip_to), None
    raise ValueError(kind)


def run_case(data, stream_kind, threshold, path, fault, scratch, flip_to=None, kwargs=None):
    """returns (Failure|None, klass)"""
    import pickle as pk

    import fickling
    import fickling.loader as loader
    import verif_sink
    from fickling.analysis import Severity
    from fickling.exception import UnsafeFileError

    case = {"hex": data.hex(), "stream": stream_kind, "threshold": threshold, "path": path,
            "fault": fault, "flip_to": flip_to.hex() if flip_to else None, "kwargs": kwargs or {}}  # fmt: skip
    kwargs = dict(kwargs or {})
    reset_pickle_bindings()
    v = verdict_of(data)
    want = stock(data, kwargs) if v[0] == "ok" else None
    T = getattr(Severity, threshold)
    src, fh = make_stream(stream_kind, data, scratch, flip_to)
    mon = Monitor.get()
    real_check = loader.check_safety
    fired = {"n": 0}

    def wrapped(*a, **k):
        fired["n"] += 1
        if isinstance(src, FlipStream):
            src.flip()
        if fault:
            raise {"ValueError": ValueError, "KeyError": KeyError, "AttributeError": AttributeError,
                   "RecursionError": RecursionError, "MemoryError": MemoryError}[fault]("injected")  # fmt: skip
        return real_check(*a, **k)

    loader.check_safety = wrapped
    verif_sink.reset()
    _forget_canaries()
    outcome = None
    try:
        with mon.watch() as events:
            try:
                if path == "loader":
                    if len(data) % 2 and not kwargs:
                        r = fickling.load(src, T)  # the documented second parameter, positionally
                    else:
                        r = fickling.load(src, max_acceptable_severity=T, **kwargs)
                elif path == "hook":
                    fickling.always_check_safety()
                    r = pk.load(src, **kwargs)
                elif path == "hook_threshold":
                    fickling.always_check_safety()
                    r = pk.load(src, max_acceptable_severity=T, **kwargs)
                elif path == "context":
                    with fickling.check_safety():
                        r = pk.load(src, **kwargs)
                elif path == "hook_after_context":
                    # the global hook stays armed after an inner context has come and gone
                    fickling.always_check_safety()
                    with fickling.check_safety():
                        pass
                    r = pk.load(src, **kwargs)
                elif path == "hook_after_lenient_context":
                    # a with-block asking for a lenient threshold has come and gone: the global
                    # hook is back to what it was
                    fickling.always_check_safety()
                    try:
                        with fickling.check_safety(max_acceptable_severity=Severity.OVERTLY_MALICIOUS):
                            pass
                    except TypeError:
                        with fickling.check_safety():
                            pass
                    r = pk.load(src, **kwargs)
                elif path == "outer_context_after_inner":
                    with fickling.check_safety():
                        with fickling.check_safety():
                            pass
                        r = pk.load(src, **kwargs)
                elif path == "context_after_ml_cycle":
                    # an ML environment was activated and removed earlier in the process
                    fickling.hook.activate_safe_ml_environment()
                    fickling.hook.deactivate_safe_ml_environment()
                    with fickling.check_safety():
                        r = pk.load(src, **kwargs)
                else:
                    raise ValueError(path)
                outcome = ("returned", r)
            except UnsafeFileError as e:
                outcome = ("unsafe", e)
            except RecursionError as e:
                outcome = ("raised", e)
            except BaseException as e:  # noqa: BLE001
                if isinstance(e, (KeyboardInterrupt, SystemExit)):
                    raise
                outcome = ("raised", e)
        evs = [e for e in events if e[0] == "pickle.find_class"]
        imported = sorted({e[1] for e in events if e[0] == "import" and e[1].split(".")[0] in CANARY_ROOTS}
                          | {m for m in sys.modules if m.split(".")[0] in CANARY_ROOTS})
    finally:
        _forget_canaries()
        loader.check_safety = real_check
        reset_pickle_bindings()
        if fh is not None:
            fh.close()
    log = list(verif_sink.LOG)
    verif_sink.reset()
    honours_T = path in ("loader", "hook_threshold")
    eff_T = threshold if honours_T else "LIKELY_SAFE"
    klass = outcome[0]
    if stream_kind == "flip" and fired["n"] == 0 and outcome[0] == "returned":
        klass = "flip_not_exercised"

    def fail(msg):
        return Failure(case, f"{path} on {data!r} via {stream_kind} (T={threshold}, fault={fault}): {msg}"), klass

    if data in NESTED and path != "loader" and not fault and flip_to is None:
        # an accepted outer pickle performs pickle.load on an embedded, flagged stream while the
        # check is armed: that load is a load through the pickle module like any other
        if log or any(e[1] == "verif_sink" for e in evs):
            return fail(f"the nested pickle.load of a flagged stream was executed although the check is armed "
                        f"(outcome {outcome[0]}: {outcome[1]!r}; sink {log!r}; resolved {evs!r})")
        if outcome[0] == "returned":
            return fail(f"returned {outcome[1]!r} although the nested stream is flagged")
        return None, "nested-" + klass
    acceptable = v[0] == "ok" and not fault and RANK[v[1]] <= RANK[eff_T]
    if outcome[0] != "returned" and not acceptable:
        # fail-closed clause: the load was refused (verdict too high, analysis failed, fault)
        if log:
            return fail(f"did not return ({outcome[0]}: {outcome[1]!r}) but the sink ran: {log!r}")
        if evs:
            return fail(f"did not return ({outcome[0]}) but resolved globals: {evs!r}")
        if imported:
            return fail(f"did not return ({outcome[0]}) but imported {imported}, named by the pickle")
    if flip_to is None and _structurally_invalid(data):
        # a program the VM rejects for a reason that needs no knowledge of types (stack underflow,
        # missing MARK, unset memo key, odd item count): no unpickler can return from it
        if outcome[0] == "returned":
            return fail(f"returned {outcome[1]!r} for a program the pickle VM rejects structurally")
        if log:
            return fail(f"the VM rejects this program structurally ({outcome[0]}: {outcome[1]!r}) but the sink ran: {log!r}")
        if evs or imported:
            return fail(f"the VM rejects this program structurally ({outcome[0]}) but globals were resolved: {evs or imported!r}")
    if not _complete(data) and flip_to is None:
        # bytes without a terminating STOP (or not a pickle at all) can never be returned by any
        # unpickler: every outcome is a non-returning one, whatever the analysis thought of them
        if outcome[0] == "returned":
            return fail(f"returned {outcome[1]!r} for bytes that are not a complete pickle")
        if log:
            return fail(f"the bytes are not a complete pickle ({outcome[0]}: {outcome[1]!r}) but the sink ran: {log!r}")
        if evs or imported:
            return fail(f"the bytes are not a complete pickle ({outcome[0]}) but globals were resolved: {evs or imported!r}")
    if fault:
        if outcome[0] == "returned":
            return fail(f"analysis failed with an injected {fault} but the load returned {outcome[1]!r}")
        return None, "fault-" + klass
    if v[0] == "raises":
        if outcome[0] == "returned":
            return fail(f"analysis of these bytes raises {v[1]} but the checked load returned {outcome[1]!r}")
        return None, "analysis-raises-" + klass
    rank_v, rank_T = RANK[v[1]], RANK[eff_T]
    if outcome[0] == "returned":
        if floor_for(data) > rank_T:
            names = {v_: k_ for k_, v_ in RANK.items()}
            return fail(
                f"returned {outcome[1]!r} with accepted severity {eff_T} although this payload's "
                f"documented floor is {names[floor_for(data)]} (verdict reported on this call: {v[1]})"
            )
        if rank_v > rank_T:
            return fail(f"returned {outcome[1]!r} although the verdict {v[1]} exceeds the accepted {eff_T}")
        if want is None:
            return fail("returned although the stock unpickler rejects these bytes")
        if not values.deep_equal(outcome[1], want[0]) or log != want[1]:
            return fail(
                f"returned {outcome[1]!r} with sink log {log!r}; the stock unpickler gives "
                f"{want[0]!r} with {want[1]!r} for the analysed bytes"
            )
        return None, klass
    if outcome[0] == "unsafe":
        if rank_v <= rank_T and honours_T:
            return fail(f"raised UnsafeFileError although the verdict {v[1]} is within the accepted {eff_T}")
        if rank_v > rank_T:
            info = getattr(outcome[1], "info", None)
            if not isinstance(info, dict) or info.get("severity") != v[1]:
                return fail(f"UnsafeFileError carries {info!r}, expected severity {v[1]}")
        return None, klass
    # some other exception
    if rank_v <= rank_T and honours_T and want is not None:
        return fail(f"raised {outcome[1]!r} although the verdict {v[1]} is acceptable and the bytes load")
    if rank_v > rank_T:
        return fail(f"verdict {v[1]} exceeds {eff_T} but the load raised {outcome[1]!r} instead of UnsafeFileError")
    return None, klass


def kf_c02_1(scratch):
    import fickling
    import verif_sink

    reset_pickle_bindings()
    benign = benign_same_length(len(MALICIOUS))
    verif_sink.reset()
    try:
        fickling.load(DoubleReadFlip(benign, MALICIOUS))
    except Exception:  # noqa: BLE001
        pass
    log = list(verif_sink.LOG)
    verif_sink.reset()
    if log:
        return Failure(
            {"kf": "KF-C02-1"},
            "stream whose bytes change after their first read: analysis saw the benign bytes, the "
            f"malicious ones were executed (sink log {log!r})",
        )
    return None


def replay(case):
    with Scratch("c02") as scratch:
        if case.get("kf") == "KF-C02-1":
            return kf_c02_1(scratch)
        return run_case(
            bytes.fromhex(case["hex"]), case["stream"], case["threshold"], case["path"],
            case["fault"], scratch, bytes.fromhex(case["flip_to"]) if case.get("flip_to") else None,
            case.get("kwargs"),
        )[0]  # fmt: skip


def _payloads():
    from hypothesis import strategies as st

    nat = st.tuples(values.plain_values(max_leaves=6), st.sampled_from(range(6))).map(
        lambda t: pickle.dumps(t[0], protocol=t[1])
    )
    # text with lone surrogates (what os.fsdecode yields for undecodable names; the pickler writes
    # them with surrogatepass), alone and inside containers
    lone = st.tuples(st.sampled_from(["\udc80", "a\udcffb", "\ud800", ["\udc80\udc81", "x"], {"k\udcfe": ("\udc9f" * 3, 1)},
                                      ["\udcff" * 40, b"\xff", "tail"]]), st.sampled_from(range(6))).map(
        lambda t: pickle.dumps(t[0], protocol=t[1])
    )
    nat = st.one_of(nat, nat, nat, lone)
    flagged = st.sampled_from(FLAGGED)
    raises = st.sampled_from(ANALYSIS_RAISES)
    trunc = st.tuples(st.one_of(nat, flagged), st.integers(0, 60)).map(lambda t: t[0][: t[1]])
    trailing = st.tuples(st.one_of(nat, flagged), st.one_of(flagged, nat, st.binary(max_size=6))).map(
        lambda t: t[0] + t[1]
    )
    return st.one_of(nat, flagged, flagged, raises, trunc, trailing, st.sampled_from(PY2_STYLE), st.sampled_from(NESTED))


def _case_strategy():
    from hypothesis import strategies as st

    @st.composite
    def case(draw):
        stream = draw(st.sampled_from(STREAMS))
        path = draw(st.sampled_from(PATHS))
        if stream == "bytes" and path != "loader":
            stream = "bytesio"
        T = draw(st.sampled_from(THRESHOLDS))
        fault = draw(st.sampled_from(FAULTS + (None,) * 10))
        if stream == "flip":
            n = draw(st.integers(len(MALICIOUS), len(MALICIOUS) + 8))
            mal = MALICIOUS[:-1] + b"0" * (n - len(MALICIOUS)) + b"." if n > len(MALICIOUS) else MALICIOUS
            mal = b"cverif_sink\nsink\n(S'pwn'\ntR" + b"N0" * ((n - len(MALICIOUS)) // 2) + b"."
            data = benign_same_length(len(mal))
            return (data, stream, T, path, fault, mal, {})
        return (draw(_payloads()), stream, T, path, fault, None, draw(st.sampled_from(KWARGS)))

    return case()


def shards(tier):
    per = 500 if tier == "quick" else 8000
    return [{"kind": "product", "n": per, "idx": i} for i in range(16)]


def run_shard(spec, seed):
    res = ShardResult()
    with Scratch("c02") as scratch:

        def body(case):
            data, stream, T, path, fault, flip_to, kw = case
            f, klass = run_case(data, stream, T, path, fault, scratch, flip_to, kw)
            v = verdict_of(data)
            nt = (
                stream in ("flip", "non_seekable")
                or fault is not None
                or v[0] == "raises"
                or (v[0] == "ok" and v[1] != "LIKELY_SAFE")
            )
            res.note(
                (data.hex(), stream, T, path, fault, sorted(kw.items())),
                nt,
                klass=[klass, "stream:" + stream, "path:" + path, "verdict:" + v[1]],
                sample={"hex": data.hex(), "stream": stream, "T": T, "path": path, "fault": fault},
            )
            if klass == "flip_not_exercised":
                res.extra["flip_not_exercised"] = res.extra.get("flip_not_exercised", 0) + 1
            scratch.wipe()
            return f

        hypothesis_search(_case_strategy(), body, seed, spec["n"], res, batch=500)
    return res

"""C15  Injected constants and constructed opcodes mean what was asked, or are refused."""
import contextlib
import io
import os
import pickle
import pickletools

from vlib import env, values
from vlib.runner import Failure, ShardResult, hypothesis_search

ID = "C15"
LEVEL = "exploration"
RULE = (
    "(1) values from a boundary-biased generator (ints 0, +-1, 2^8+-1, 2^16+-1, 2^31+-1, 2^63+-1, "
    "huge; floats incl. -0.0, inf, non-integral; booleans; text over ASCII / Latin-1 / BMP / "
    "astral / control / quotes / backslash / newline / digits-only; bytes likewise; nested lists "
    "and dicts) passed through insert_python (run first / run last), append_python, "
    "insert_function_call_on_unpickled_object(constant_args=...), insert_python_obj and CLI "
    "--create; the built pickle is loaded by the stock unpickler with callee verif_sink.sink: "
    "either building raises, or the sink receives exactly one argument of the same type and "
    "deep-equal (float sign aware). (2) every class in OPCODES_BY_NAME x arguments typed by its "
    "pickletools argument descriptor (boundary ints per width, floats, bytes/text at boundary "
    "lengths, 'module name' pairs), built directly and through ConstantOpcode.new / Global.create "
    "/ Inst.create / Get.create / Proto.create: encode() either raises or "
    "pickletools.genops(encode() + STOP) reads back the same opcode name and an equal argument "
    "(utf-8 bytes <-> str for the unicode family, Get.memo_id). Non-trivial = value at a boundary, "
    "numeric-looking text/bytes, non-ASCII or escaped text, or a nested container; distinct = "
    "distinct (route, value) / (class, argument)."
    ' Also: unpaired surrogates, subclass instances of the constant types (str/int enums,'
    ' subclasses overriding __str__/__repr__), GLOBAL names with white space, and every'
    ' constructed opcode re-encoded after the Pickled holding it has been interpreted.'
)
ASSUMPTIONS = [
    "open known finding KF-C15-1 (String, ShortBinString, BinString, Long1, Long4 encoders) is "
    "excluded per class from route (2) and replayed",
    "route (1) loads only pickles whose single global is the harmless sink (or eval of a literal "
    "for --create)",
]

KF_CLASSES = {"STRING", "SHORT_BINSTRING", "BINSTRING", "LONG1", "LONG4"}
ROUTES = ("insert_first", "insert_last", "append", "function_arg", "python_obj", "cli_create")


def _load_module_level(data):
    """load with the stock unpickler from a module-level frame (globals is locals), so
    that exec/eval pairs injected by the function-call helper share a namespace"""
    import verif_sink

    verif_sink.reset()
    g = {"pickle": pickle, "data": data, "__name__": "verif_loader"}
    exec("r = pickle.loads(data)", g)
    return g["r"], list(verif_sink.LOG)


def route_build(route, v, scratch):
    """returns bytes or raises (refusal)"""
    from fickling.fickle import Pickled

    base = pickle.dumps("base-object", protocol=2)
    p = Pickled.load(base)
    if route == "insert_first":
        p.insert_python(v, module="verif_sink", attr="sink", run_first=True)
    elif route == "insert_last":
        p.insert_python(v, module="verif_sink", attr="sink", run_first=False)
    elif route == "append":
        p.append_python(v, module="verif_sink", attr="sink", pop_result=True)
    elif route == "function_arg":
        p.insert_function_call_on_unpickled_object(
            "def verif_fn(obj, a):\n    import verif_sink\n    verif_sink.sink(a)\n    return obj",
            constant_args=[v],
        )
    elif route == "python_obj":
        p = Pickled.load(b"N.")
        k = p.insert_python_obj(0, v)
        del p[k]
    elif route == "cli_create":
        from fickling import cli

        path = os.path.join(scratch, "created.pkl")
        with contextlib.redirect_stdout(io.StringIO()), contextlib.redirect_stderr(io.StringIO()):
            try:
                rc = cli.main(["fickling", "--create", repr(v), path])
            except SystemExit as e:  # argparse rejects e.g. "-1" as an unknown option
                raise ValueError(f"cli exited {e.code}")
        if rc != 0:
            raise ValueError(f"cli returned {rc}")
        with open(path, "rb") as f:
            return f.read()
    else:
        raise ValueError(route)
    return p.dumps()


def check_route(route, v, scratch):
    """(Failure|None, klass)"""
    case = {"route": route, "value": _enc(v)}
    try:
        data = route_build(route, v, scratch)
    except RecursionError:
        return None, "refused"
    except Exception:  # noqa: BLE001
        return None, "refused"
    case["built"] = data.hex()
    # what was built, written out through a text-mode file: refused, or exactly these bytes
    from fickling.fickle import Pickled

    from vlib.textdump import text_dump_problem

    try:
        parsed = Pickled.load(data)
    except Exception:  # noqa: BLE001 - what was built does not even parse: reported by the load below
        parsed = None
    msg = text_dump_problem(parsed, scratch, "-c15") if parsed is not None else None
    if msg:
        return Failure(case, f"{route}({v!r}): {msg}"), "text-dump"
    try:
        r, log = _load_module_level(data)
    except Exception as e:  # noqa: BLE001
        return (
            Failure(
                case,
                f"{route}({v!r}) built {data!r} which the stock unpickler cannot load: "
                f"{type(e).__name__}: {e}",
            ),
            "load-failed",
        )
    if route in ("python_obj", "cli_create"):
        got = [r]
    else:
        got = [a[0] if len(a) == 1 and not k else ("<bad call>", a, k) for a, k in log]
    if len(got) != 1:
        return Failure(case, f"{route}({v!r}): sink called {len(got)} times"), "loaded"
    v = _base_value(v)
    if not values.deep_equal(got[0], v):
        return (
            Failure(
                case,
                f"{route}({v!r}) delivered {got[0]!r} ({type(got[0]).__name__}) instead of "
                f"{v!r} ({type(v).__name__})",
            ),
            "loaded",
        )
    return None, "loaded"


def _base_value(v):
    """an instance of a subclass of a constant type stands for its plain value (what the base
    type's own operations see, not what an overridden __str__ / __repr__ / __int__ says)"""
    if isinstance(v, bool) or v is None:
        return v
    if isinstance(v, str) and type(v) is not str:
        return str.__add__("", v)
    if isinstance(v, int) and type(v) is not int:
        return int.__add__(v, 0)
    if isinstance(v, float) and type(v) is not float:
        return float.__add__(v, 0.0)
    if isinstance(v, bytes) and type(v) is not bytes:
        return bytes.__add__(b"", v)
    if isinstance(v, list):
        return [_base_value(x) for x in v]
    if isinstance(v, dict):
        return {_base_value(k): _base_value(x) for k, x in v.items()}
    return v


def _enc(v):
    return {"pickle": pickle.dumps(v, protocol=4).hex(), "repr": repr(v)[:200]}


def _dec(d):
    return pickle.loads(bytes.fromhex(d["pickle"]))  # plain data written by this harness


# ---------------------------------------------------------------- route 2


def typed_args(name, argname):
    """representative arguments for a pickletools argument descriptor"""
    ints = {
        "uint1": [0, 1, 127, 128, 255, 256, -1],
        "uint2": [0, 1, 255, 256, 65535, 65536, -1],
        "int4": [0, 1, -1, 2**31 - 1, -(2**31), 2**31, -(2**31) - 1],
        "uint4": [0, 1, 65536, 2**32 - 1, 2**32, -1],
        "uint8": [0, 1, 2**32, 2**64 - 1, 2**64, -1],
        "long1": [0, 1, -1, 127, 128, -128, -129, 255, 256, 2**31, 2**63, -(2**63), 2**100],
        "long4": [0, 1, -1, 255, 2**31, 2**100, -(2**100)],
        "decimalnl_short": [0, 1, -1, 255, 2**31, 2**63, 2**100],
        "decimalnl_long": [0, 1, -1, 2**31, 2**100, -(2**100)],
    }
    if argname is None:
        return [None]
    if argname in ints:
        return ints[argname]
    if argname == "float8":
        return [0.0, -0.0, 1.5, -2.25, 1e300, float("inf"), float("-inf"), 5e-324, 0.1]
    if argname in ("bytes1", "bytes4", "bytes8"):
        return [b"", b"a", b"12", b"\x00\xff", b"\n", b"y" * 255, b"y" * 256, b"y" * 65536]
    if argname in ("string1", "string4", "stringnl"):
        return ["", "a", "abc", "123", "it's", 'say "hi"', "a b", "back\\slash", "new\nline",
                "z" * 255, "z" * 256, "é"]  # fmt: skip
    if argname in ("unicodestring1", "unicodestring4", "unicodestring8", "unicodestringnl"):
        texts = ["", "a", "123", "é", "€", "\U0001d11e", "a\nb", "\\", "\\n", "\\u0041",
                 "\r", "\x00", "\x1a", "'\"", "x" * 255, "x" * 256, "é" * 128, "x" * 65536]  # fmt: skip
        return texts + [t.encode("utf-8") for t in texts]
    if argname == "stringnl_noescape_pair":
        return ["os system", "builtins eval", "foo.bar Baz", "collections OrderedDict"]
    if argname == "stringnl_noescape":
        return ["pid", "42"]
    if argname == "floatnl":
        return [0.0, -0.0, 1.5, -2.25, 1e300, float("inf"), float("-inf"), 5e-324, 0.1]
    if argname == "bytearray8":
        return [bytearray(b""), bytearray(b"ab"), bytearray(b"\x00\xff" * 200)]
    # an opcode class with an argument kind this table does not know (a tree that supports more
    # opcodes than the pinned one): nothing to construct it with
    return []


def cls_argname(name):
    from fickling import fickle

    cls = fickle.OPCODES_BY_NAME[name]
    return cls.info.arg.name if cls.info.arg else None


def expected_arg(name, arg):
    """what genops should read back for a directly constructed opcode"""
    if isinstance(arg, bytes) and name in ("SHORT_BINUNICODE", "BINUNICODE", "BINUNICODE8", "UNICODE"):
        return arg.decode("utf-8")
    return arg


def constructions():
    """yield (label, name, arg, thunk) for every constructible opcode"""
    from fickling import fickle

    for name, cls in sorted(fickle.OPCODES_BY_NAME.items()):
        argname = cls.info.arg.name if cls.info.arg else None
        for arg in typed_args(name, argname):
            if arg is None:
                yield ("direct", name, None, (lambda c=cls: c()))
            else:
                yield ("direct", name, arg, (lambda c=cls, a=arg: c(a)))
    for m, n in (("os", "system"), ("foo.bar", "Baz"), ("builtins", "eval"),
                 # names with white space: legal in GLOBAL's newline-terminated lines except for the
                 # space and the newline themselves, which must be refused
                 ("pkg\tmod", "name"), ("mod", "na\x0cme"), ("mod", "name\r"), ("m\x1cx", "n"),
                 ("m\x0bx", "n\x1f"), ("a b", "c"), ("a", "b c"), ("a  b", "c"), ("a\nb", "c"),
                 ("a", "b\n"), ("verif_objs", "Outer.Inner")):  # fmt: skip
        yield ("Global.create", "GLOBAL", f"{m} {n}", (lambda m=m, n=n: fickle.Global.create(m, n)))
        yield ("Inst.create", "INST", f"{m} {n}", (lambda m=m, n=n: fickle.Inst.create(m, n)))
    for k in (0, 1, 2, 255, 256, 321987, 2**40):
        yield ("Get.create", "GET", k, (lambda k=k: fickle.Get.create(k)))
        yield ("Put", "PUT", k, (lambda k=k: fickle.Put(k)))
    for v in (0, 1, 2, 3, 4, 5, 255, 256, -1):
        yield ("Proto.create", "PROTO", v, (lambda v=v: fickle.Proto.create(v)))


def same_kind_equal(a, b):
    if isinstance(a, (int, bool)) and isinstance(b, (int, bool)):
        return type(a) is type(b) and a == b
    return values.deep_equal(a, b)


def check_construction(label, name, arg, thunk):
    case = {"label": label, "name": name, "arg": _enc(arg)}
    try:
        op = thunk()
        enc = op.encode()
    except Exception:  # noqa: BLE001
        return None, "refused"
    if not isinstance(enc, (bytes, bytearray)):
        return Failure(case, f"{label} {name}({arg!r}).encode() returned {type(enc).__name__}"), "x"
    try:
        first = next(iter(pickletools.genops(bytes(enc) + b".")))
    except Exception as e:  # noqa: BLE001
        return (
            Failure(
                case,
                f"{label} {name}({_r(arg)}) encodes to {_r(bytes(enc))} which the disassembler "
                f"cannot read: {type(e).__name__}: {e}",
            ),
            "encoded",
        )
    # the encoding is a property of the opcode object, not of what has been done with it: built
    # again, put in a Pickled, interpreted / analysed, it still encodes to the same bytes
    try:
        from fickling.analysis import check_safety
        from fickling.fickle import Pickled, Stop

        op2 = thunk()
        holder = Pickled([op2, Stop()])
        for use in (lambda: holder.ast, lambda: holder.has_import, lambda: check_safety(holder)):
            try:
                use()
            except Exception:  # noqa: BLE001
                pass
        enc2 = op2.encode()
    except Exception:  # noqa: BLE001
        enc2 = enc
    if bytes(enc2) != bytes(enc):
        return (
            Failure(case, f"{label} {name}({_r(arg)}) encodes to {_r(bytes(enc))} when new but to {_r(bytes(enc2))} "
                          "after the Pickled holding it has been interpreted"),
            "encoded",
        )
    # ... nor of what it encoded to before its argument was changed
    others = [a for a in typed_args(name, cls_argname(name)) if a is not None and not same_kind_equal(a, arg)] if arg is not None else []
    if others and label == "direct":
        try:
            op3 = thunk()
            op3.data
            op3.arg = others[0]
            after = bytes(op3.data)
            fresh = bytes(type(op3)(others[0]).data)
        except Exception:  # noqa: BLE001
            after = fresh = None
        if after != fresh:
            return (
                Failure(case, f"{name}({_r(arg)}) was serialised, then its argument was set to {_r(others[0])}: it now "
                              f"encodes to {_r(after)} but a new {name}({_r(others[0])}) encodes to {_r(fresh)}"),
                "encoded",
            )
    rinfo, rarg, _ = first
    want = expected_arg(name, arg)
    if label in ("Get.create", "Put") or name in ("GET", "PUT"):
        want = int(want) if not isinstance(want, (bytes, str)) else int(want)
    if rinfo.name != name or not same_kind_equal(rarg, want):
        return (
            Failure(
                case,
                f"{label} {name}({_r(arg)}) encodes to {_r(bytes(enc))}, read back as "
                f"{rinfo.name} {_r(rarg)}",
            ),
            "encoded",
        )
    return None, "encoded"


def _r(x):
    s = repr(x)
    return s if len(s) < 120 else s[:120] + "..."


def check_new(v):
    """ConstantOpcode.new(v): the chosen opcode must read back as v (same kind)"""
    from fickling import fickle

    case = {"label": "ConstantOpcode.new", "arg": _enc(v)}
    try:
        op = fickle.ConstantOpcode.new(v)
        enc = op.encode()
    except Exception:  # noqa: BLE001
        return None, "refused"
    if op.name in KF_CLASSES:
        return None, "excluded-kf"
    try:
        rinfo, rarg, _ = next(iter(pickletools.genops(bytes(enc) + b".")))
    except Exception as e:  # noqa: BLE001
        return Failure(case, f"ConstantOpcode.new({_r(v)}) -> {op.name} unreadable: {e}"), "new"
    if not same_kind_equal(rarg, v):
        return (
            Failure(
                case,
                f"ConstantOpcode.new({_r(v)}) chose {op.name} which reads back as {_r(rarg)} "
                f"({type(rarg).__name__})",
            ),
            "new",
        )
    return None, "new"


def replay(case):
    scratch = os.path.join(env.SCRATCH, f"c15-{os.getpid()}")
    os.makedirs(scratch, exist_ok=True)
    try:
        if "route" in case:
            return check_route(case["route"], _dec(case["value"]), scratch)[0]
        if case.get("label") == "ConstantOpcode.new":
            return check_new(_dec(case["arg"]))[0]
        arg = _dec(case["arg"])
        for label, name, a, thunk in constructions():
            if label == case["label"] and name == case["name"] and same_kind_equal(a, arg):
                return check_construction(label, name, a, thunk)[0]
        return None
    finally:
        import shutil

        shutil.rmtree(scratch, ignore_errors=True)


def _nt_value(v):
    feats = values.features(v)
    if {"nested", "list", "dict"} & feats:
        return True
    if isinstance(v, bool):
        return True
    if isinstance(v, int):
        return v in values.INT_BOUNDARY
    if isinstance(v, float):
        return v != int(v) if v == v and abs(v) != float("inf") else True
    if isinstance(v, str):
        return (not v.isascii()) or v.strip("-").replace(".", "").isdigit() or any(c in v for c in "\\\n\r'\"")
    if isinstance(v, bytes):
        return v.isdigit() or any(b > 127 or b < 32 for b in v)
    return False


def _value_strategy():
    from hypothesis import strategies as st

    # plus text with unpaired surrogates (legal str values; pickle itself encodes them with
    # surrogatepass)
    import verif_objs

    scal = st.one_of(values.scalars(), values.scalars(), values.scalars(), st.sampled_from(verif_objs.SUBCLASS_VALUES),
                     st.sampled_from(["\ud800", "a\udfffb", "\udc80x", "\ud83d", "\ude00\ud83d"]),
                     st.sampled_from([bytearray(b"ba"), bytearray(b""), bytearray(b"q" * 300)]))  # fmt: skip
    key = st.one_of(values.texts(6), values.ints(), values.byteses(4), st.just("\udcff"))
    return st.one_of(
        scal,
        scal,
        st.lists(scal, max_size=4),
        st.dictionaries(key, scal, max_size=3),
        st.lists(st.one_of(scal, st.lists(scal, max_size=3), st.dictionaries(key, scal, max_size=2)), max_size=3),
        st.dictionaries(key, st.one_of(scal, st.lists(scal, max_size=3)), max_size=3),
    )


def shards(tier):
    per = 1200 if tier == "quick" else 40000
    out = [{"kind": "routes", "n": per, "idx": i} for i in range(12)]
    out += [{"kind": "new", "n": per * 4, "idx": i} for i in range(3)]
    out += [{"kind": "constructions"}]
    out += [{"kind": "sizes", "part": i, "nparts": 4} for i in range(4)]
    return out


def size_values():
    """values sitting on the length boundaries of the encodings (one-byte / two-byte / four-byte
    lengths, the pickler's batches of 1000)"""
    for n in (0, 1, 255, 256, 257, 999, 1000, 1001, 1999, 2000, 2001, 3000, 65535, 65536):
        yield list(range(n))
        yield {i: i for i in range(n)}
        yield "x" * n
        yield b"y" * n
        if n in (1000, 2000):
            yield [list(range(n)), "tail"]
            yield {"k": list(range(n))}
            yield [{i: str(i) for i in range(n)}]


def run_shard(spec, seed):
    from hypothesis import strategies as st

    res = ShardResult()
    scratch = os.path.join(env.SCRATCH, f"c15-{os.getpid()}")
    os.makedirs(scratch, exist_ok=True)
    try:
        if spec["kind"] == "routes":
            strat = st.tuples(st.sampled_from(ROUTES), _value_strategy())

            def body(case):
                route, v = case
                if route == "cli_create" and type(v) not in (str, bytes, int):
                    route = "insert_first"
                f, klass = check_route(route, v, scratch)
                res.note(
                    (route, repr(v)),
                    _nt_value(v),
                    klass=[klass, "route:" + route, "type:" + type(v).__name__],
                    sample={"route": route, "value": repr(v)[:160]},
                )
                return f

            hypothesis_search(strat, body, seed, spec["n"], res, batch=500)
        elif spec["kind"] == "sizes":
            cases = [(r, v) for v in size_values() for r in ROUTES if r != "cli_create" or type(v) in (str, bytes)]
            for route, v in cases[spec["part"] :: spec["nparts"]]:
                f, klass = check_route(route, v, scratch)
                res.note(None, True, klass=[klass, "sizes", "route:" + route],
                         sample={"route": route, "value": f"{type(v).__name__} of length {len(v)}"})
                if f is not None:
                    res.failures.append(f)
                    break
        elif spec["kind"] == "new":

            def body(v):
                f, klass = check_new(v)
                res.note(("new", repr(v)), _nt_value(v), klass=klass, sample={"new": repr(v)[:160]})
                return f

            hypothesis_search(values.scalars(), body, seed, spec["n"], res, batch=1000)
        else:
            n = 0
            for label, name, arg, thunk in constructions():
                if name in KF_CLASSES:
                    res.excluded[f"KF-C15-1 {name} encoder"] += 1
                    continue
                f, klass = check_construction(label, name, arg, thunk)
                n += 1
                res.note(
                    None,
                    arg is not None,
                    klass=[klass, "class:" + name],
                    sample={"construct": f"{label} {name}({_r(arg)})"},
                )
                if f is not None:
                    res.failures.append(f)
            res.exhaustive = True
            res.extra["constructions"] = n
    finally:
        import shutil

        shutil.rmtree(scratch, ignore_errors=True)
    return res

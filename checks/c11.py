"""C11  User allowlist additions do not outlive or leak beyond their activation."""
import io

from vlib import env
from vlib.runner import Failure, Found, ShardResult, derive_seed, hypothesis_settings
from vlib.sandbox import reset_pickle_bindings

ID = "C11"
LEVEL = "exploration"
RULE = (
    "Hypothesis RuleBasedStateMachine over histories (<= 30 steps) of activate(additions) / "
    "deactivate / construct-unpickler(additions)+probe / probe through one of the four hooked "
    "entry points (pickle.load, pickle.loads, _pickle.load, _pickle.loads); additions drawn from "
    "{new member of an allow-listed module (collections.Counter, collections.deque), new modules "
    "(fractions.Fraction, decimal.Decimal), several at once, none}; probes resolve-and-call a "
    "BASE name, each addable name, or the never-allowed verif_sink.sink. Oracle = two-variable "
    "model (BASE, current additions): a hooked probe is allowed iff name in BASE + current; a "
    "constructed unpickler allows iff name in BASE + its own additions; blocked probes raise "
    "UnsafeFileError with an empty sink log; after every step a deep snapshot of ML_ALLOWLIST "
    "equals the snapshot taken at import. Non-trivial = history with two activations carrying "
    "different additions, or an activation followed by a direct construction; distinct = "
    "distinct histories."
    ' Also: protocol-4 qualified names and Python-2 spellings (never permitted), and the other'
    ' guard (always_check_safety) armed between activations.'
)
ASSUMPTIONS = [
    "with no environment active the pickle module is the stock one (probes through it succeed)",
    "the harness restores the hooks and ML_ALLOWLIST to their import-time state before each "
    "generated history, so every history is a pure function of the code",
]

ADDABLE = ("collections.Counter", "collections.deque", "fractions.Fraction", "decimal.Decimal")
# additions that are only ever *resolved* (never called): new members of other allow-listed
# modules and of the numpy >= 2 spelling of an allow-listed module
ADDABLE_RESOLVE_ONLY = (
    "numpy._core.multiarray._reconstruct", "numpy._core.multiarray.scalar", "numpy.core.multiarray.scalar",
    "torch._utils._rebuild_parameter", "argparse.ArgumentParser", "copyreg.__newobj__", "_io.StringIO",
    "numpy.int64", "torch.ComplexFloatStorage", "os.getcwdb", "os.fstat",
)
# names that are never permitted but are *part of* the spelling of a permitted name of the same
# module (numpy.ndarray, torch.FloatStorage, torch.float32, copyreg._reconstructor, the additions
# os.getcwdb / os.fstat ...): resolved only
NEAR_MISS = ("numpy.array", "torch.Storage", "torch.float", "copyreg.constructor", "os.getcwd", "os.stat",
             "torch._tensor._rebuild_from_type", "collections.Count")
BASE_NAMES = ("collections.OrderedDict", "collections.defaultdict")
# ("fractions.Decimal" / "decimal.Fraction": members of two addable modules crossed - never added)
NEVER = ("verif_sink.sink", "fractions.Decimal", "decimal.Fraction")
# protocol-4 qualified names: a member of a permitted global is a different global, and is not
# in the allowlist (resolved through STACK_GLOBAL, never called)
# Python-2 spellings of allow-listed / addable globals, in a protocol-3 pickle (nothing is renamed
# from protocol 3 on): never permitted
PY2_SPELLED = {
    "UserDict.OrderedDict": ("UserDict", "OrderedDict"),
    "copy_reg._reconstructor": ("copy_reg", "_reconstructor"),
    "cPickle.Counter": ("cPickle", "Counter"),
}
QUALIFIED = {
    "collections.OrderedDict.fromkeys": ("collections", "OrderedDict.fromkeys"),
    "collections.Counter.most_common": ("collections", "Counter.most_common"),
    "fractions.Fraction.from_float": ("fractions", "Fraction.from_float"),
}
ENTRY = ("pickle.load", "pickle.loads", "_pickle.load", "_pickle.loads")
_SNAP = {}


def snapshot():
    import fickling.ml as ml

    return {m: dict(names) for m, names in ml.ML_ALLOWLIST.items()}


def import_snapshot():
    if "s" not in _SNAP:
        _SNAP["s"] = snapshot()
    return _SNAP["s"]


# the same globals named through the extension registry (copyreg.add_extension + EXT1): "ext:" +
# dotted name; permitted exactly when the name itself is
EXT_CODES = {"collections.Counter": 0xC1, "collections.deque": 0xC2, "fractions.Fraction": 0xC3, "decimal.Decimal": 0xC4,
             "verif_sink.sink": 0xC5, "collections.OrderedDict": 0xC6}
EXT_NAMES = tuple("ext:" + n for n in EXT_CODES)


def _plain(dotted):
    return dotted[4:] if dotted.startswith("ext:") else dotted


def restore_all():
    import copyreg

    import fickling.ml as ml

    for dotted, code in EXT_CODES.items():
        m, n = dotted.rsplit(".", 1)
        copyreg.add_extension(m, n, code)
    # (the process-wide cache of resolved extension codes starts empty for every history, like
    # every other piece of state: a history is a pure function of the code)
    copyreg._extension_cache.clear()
    reset_pickle_bindings()
    snap = import_snapshot()
    ml.ML_ALLOWLIST.clear()
    for m, names in snap.items():
        ml.ML_ALLOWLIST[m] = dict(names)


def probe_bytes(dotted):
    if dotted.startswith("ext:"):
        return b"\x82" + bytes([EXT_CODES[dotted[4:]]]) + b")R."
    if dotted in PY2_SPELLED:
        module, name = PY2_SPELLED[dotted]
        return b"\x80\x03" + f"c{module}\n{name}\n.".encode()
    if dotted in QUALIFIED:
        module, name = QUALIFIED[dotted]
        return (b"\x80\x04\x8c" + bytes([len(module)]) + module.encode() + b"\x8c" + bytes([len(name)])
                + name.encode() + b"\x93.")  # fmt: skip
    module, name = dotted.rsplit(".", 1)
    if dotted in ADDABLE_RESOLVE_ONLY or dotted in NEAR_MISS:
        return f"c{module}\n{name}\n.".encode()
    return f"c{module}\n{name}\n)R.".encode()


def do_probe(entry, dotted):
    """('allowed'|'blocked'|'error', detail, sink log)"""
    import _pickle
    import pickle

    import verif_sink
    from fickling.exception import UnsafeFileError

    data = probe_bytes(dotted)
    verif_sink.reset()
    try:
        if entry == "pickle.load":
            pickle.load(io.BytesIO(data))
        elif entry == "pickle.loads":
            pickle.loads(data)
        elif entry == "_pickle.load":
            _pickle.load(io.BytesIO(data))
        else:
            _pickle.loads(data)
        out = ("allowed", None)
    except UnsafeFileError as e:
        out = ("blocked", str(e)[:100])
    except Exception as e:  # noqa: BLE001
        # permitted by the environment; the stock resolution/call itself failed
        out = ("allowed", repr(e))
    log = list(verif_sink.LOG)
    verif_sink.reset()
    return out + (log,)


def do_construct_probe(adds, dotted):
    import verif_sink
    from fickling.exception import UnsafeFileError
    from fickling.ml import FicklingMLUnpickler

    verif_sink.reset()
    try:
        FicklingMLUnpickler(io.BytesIO(probe_bytes(dotted)), also_allow=list(adds) or None).load()
        out = ("allowed", None)
    except UnsafeFileError as e:
        out = ("blocked", str(e)[:100])
    except Exception as e:  # noqa: BLE001
        out = ("allowed", repr(e))
    log = list(verif_sink.LOG)
    verif_sink.reset()
    return out + (log,)


def in_base(dotted):
    module, name = dotted.rsplit(".", 1)
    return name in import_snapshot().get(module, {})


class Model:
    def __init__(self):
        self.active = False
        self.current = frozenset()
        self.armed = False  # always_check_safety() since the last (de)activation

    def expect_hooked(self, dotted):
        if not self.active:
            return "allowed"  # stock pickle
        dotted = _plain(dotted)
        return "allowed" if in_base(dotted) or dotted in self.current else "blocked"

    @staticmethod
    def expect_constructed(adds, dotted):
        dotted = _plain(dotted)
        return "allowed" if in_base(dotted) or dotted in adds else "blocked"


class ListedInFile(list):
    """the caller's additions, in a carrier that is a list *and* names a file holding the same
    lines (a reviewed allow-file the application also keeps in memory): whichever way the library
    reads them, they are this activation's additions"""

    def __init__(self, items):
        import os

        from vlib import env

        super().__init__(items)
        os.makedirs(env.SCRATCH, exist_ok=True)
        self._path = os.path.join(env.SCRATCH, f"c11-allow.{os.getpid()}.txt")
        with open(self._path, "w") as f:
            f.write("".join(x + "\n" for x in items))

    def __fspath__(self):
        return self._path


def step(model, st):
    """apply a step to the real system and the model; returns message or None"""
    import fickling.hook as hook

    kind = st[0]
    if kind == "activate":
        adds = list(st[1])
        carrier = ListedInFile(adds) if len(adds) % 2 else adds
        try:
            hook.activate_safe_ml_environment(also_allow=carrier or None)
        finally:
            if isinstance(carrier, ListedInFile):
                import os

                os.remove(carrier._path)
        model.active, model.current = True, frozenset(adds)
        model.armed = False
    elif kind == "deactivate":
        hook.deactivate_safe_ml_environment()
        model.active, model.current = False, frozenset()
        model.armed = False
    elif kind == "arm":
        # the other guard is armed in between (it takes over pickle.load only)
        import fickling

        fickling.always_check_safety()
        model.armed = True
    elif kind == "probe":
        if model.armed and st[1] == "pickle.load":
            return None  # that binding is the safety check's now, with its own criteria
        want = model.expect_hooked(st[2])
        got, detail, log = do_probe(st[1], st[2])
        if got != want:
            return (
                f"probe of {st[2]} through {st[1]} was {got} ({detail}); with active={model.active} "
                f"and additions {sorted(model.current)} it must be {want}"
            )
        if got == "blocked" and log:
            return f"blocked probe of {st[2]} still ran the sink: {log!r}"
    elif kind == "construct_probe":
        adds = list(st[1])
        want = model.expect_constructed(adds, st[2])
        got, detail, log = do_construct_probe(adds, st[2])
        if got != want:
            return (
                f"unpickler constructed with additions {adds} {got} {st[2]} ({detail}); it must be "
                f"{want} (hooked additions at that time: {sorted(model.current)})"
            )
        if got == "blocked" and log:
            return f"blocked probe of {st[2]} still ran the sink: {log!r}"
    else:
        raise ValueError(st)
    snap = snapshot()
    if snap != import_snapshot():
        diff = {
            m: sorted(set(snap.get(m, {})) ^ set(import_snapshot().get(m, {})))
            for m in set(snap) | set(import_snapshot())
            if snap.get(m) != import_snapshot().get(m)
        }
        return f"the built-in ML_ALLOWLIST was altered: {diff}"
    return None


def run_history(history):
    restore_all()
    model = Model()
    try:
        for st in history:
            msg = step(model, tuple(st))
            if msg:
                return msg
        return None
    finally:
        restore_all()


def replay(case):
    msg = run_history([_t(s) for s in case["history"]])
    return Failure(case, f"after {len(case['history'])} steps: {msg}") if msg else None


def _t(s):
    return tuple(tuple(x) if isinstance(x, list) else x for x in s)


def _machine(res, holder):
    from hypothesis import strategies as st
    from hypothesis.stateful import RuleBasedStateMachine, rule

    adds = st.lists(st.sampled_from(ADDABLE + ADDABLE + ADDABLE_RESOLVE_ONLY), max_size=3, unique=True).map(tuple)
    names = st.sampled_from(BASE_NAMES + ADDABLE + ADDABLE + NEVER + NEAR_MISS + EXT_NAMES + EXT_NAMES + ADDABLE_RESOLVE_ONLY + tuple(QUALIFIED) + tuple(PY2_SPELLED))

    class Env(RuleBasedStateMachine):
        def __init__(self):
            super().__init__()
            restore_all()
            self.model = Model()
            self.history = []
            self.activations = []
            self.constructed_after_activation = False

        def _do(self, stp):
            self.history.append(stp)
            msg = step(self.model, stp)
            if msg:
                case = {"history": [list(map(lambda x: list(x) if isinstance(x, tuple) else x, s)) for s in self.history]}
                holder["f"] = Failure(case, f"after {len(self.history)} steps: {msg}")
                holder.setdefault("first", holder["f"])
                raise Found(msg)

        @rule(a=adds)
        def activate(self, a):
            self.activations.append(frozenset(a))
            self._do(("activate", a))

        @rule()
        def deactivate(self):
            self._do(("deactivate",))

        @rule()
        def arm(self):
            self._do(("arm",))

        @rule(e=st.sampled_from(ENTRY), n=names)
        def probe(self, e, n):
            self._do(("probe", e, n))

        @rule(a=adds, n=names)
        def construct_probe(self, a, n):
            if self.activations:
                self.constructed_after_activation = True
            self._do(("construct_probe", a, n))

        def teardown(self):
            nt = len(set(self.activations)) >= 2 or (self.constructed_after_activation and any(self.activations))
            res.note(
                repr(self.history),
                nt,
                klass=f"steps{min(len(self.history) // 10 * 10, 30)}",
                sample={"history": [list(map(str, s)) for s in self.history]},
            )
            restore_all()

    return Env


def shards(tier):
    per = 400 if tier == "quick" else 20000
    return [{"kind": "machine", "n": per, "steps": 30, "idx": i} for i in range(16)]


def run_shard(spec, seed):
    import fickling  # noqa: F401  (hooks + ml imported before the snapshot)
    from vlib.runner import run_machine

    import_snapshot()
    res = ShardResult()
    holder = {}
    try:
        run_machine(_machine(res, holder), holder, res, seed, spec["n"], spec["steps"])
    finally:
        restore_all()
    _ = env
    return res

#!/venv/bin/python
"""Evaluate a seeded breaking change against the checks.

usage: tools/seeded.py import <name> <dir-with-patch.diff,demo.py,notes.md> <PROP> [--tier quick]
       tools/seeded.py rerun  [<name> ...]        re-run the registered seeded changes

`import` confirms, in a scratch worktree of /repo's HEAD (outside /repo and /verif):
  1. the patch applies, the package imports;
  2. the repository's own test-suite gives the baseline result (41 passed, the same 4 failing);
  3. the demonstration exits 1 with the change and 0 without it;
then runs the property's check (and, with --all, every check) against the patched worktree
(VERIF_REPO) and stores everything under /verif/seeded/<name>/ with meta.json.
The worktree is removed afterwards.  Nothing is ever applied to /repo itself.
"""
import json
import os
import re
import shutil
import subprocess
import sys
import time

ROOT = os.path.dirname(os.path.dirname(os.path.abspath(__file__)))
WT = os.environ.get("VERIF_WT", "/tmp/verif-seeded-wt")
BASE_FAIL = {"test_numpy_non_pickle", "test_numpy_pickle", "test_recursive_tar", "test_recursive_zip"}


def sh(*a, **k):
    return subprocess.run(a, capture_output=True, text=True, **k)


def fresh_wt():
    sh("git", "-C", "/repo", "worktree", "remove", "--force", WT)
    r = sh("git", "-C", "/repo", "worktree", "add", "--detach", WT, "HEAD")
    if r.returncode:
        raise SystemExit(r.stderr)


def drop_wt():
    sh("git", "-C", "/repo", "worktree", "remove", "--force", WT)


def run_suite(tree):
    r = sh("/venv/bin/python", "-m", "pytest", "-q", "-p", "no:cacheprovider", "--timeout=900",
           "--continue-on-collection-errors", cwd=tree)  # fmt: skip
    tail = r.stdout.strip().splitlines()[-1] if r.stdout.strip() else r.stderr[-200:]
    failed = set(re.findall(r"FAILED test/\S+::(\w+)", r.stdout))
    m = re.search(r"(\d+) passed", tail)
    return {"summary": tail, "passed": int(m.group(1)) if m else 0, "failed": sorted(failed),
            "baseline": failed == BASE_FAIL and (int(m.group(1)) if m else 0) == 41}  # fmt: skip


def run_demo(demo, tree):
    r = sh("/venv/bin/python", demo, env=dict(os.environ, FICKLING_TREE=tree), cwd=os.path.dirname(demo))
    return r.returncode, (r.stdout + r.stderr)[-600:]


def run_check(prop, tree, tier="quick", seed="1"):
    evid = os.path.join(ROOT, "evidence", prop + ".json")
    saved = open(evid).read() if os.path.exists(evid) else None
    env = dict(os.environ, VERIF_REPO=tree, VERIF_SEED=seed, VERIF_SHARD_MAX_RSS_MB="4000",
               VERIF_SHARD_MAX_WALL_S="1500")  # fmt: skip
    t0 = time.time()
    r = sh(os.path.join(ROOT, "run_check.py"), prop, "--tier", tier, env=env, cwd=ROOT)
    if saved is not None:
        open(evid, "w").write(saved)
    lines = [ln for ln in r.stdout.splitlines() if ln.startswith("VIOLATION") or ln.startswith("  ")]
    return {"exit": r.returncode, "wall_s": round(time.time() - t0, 1), "tier": tier, "seed": seed,
            "first_lines": [ln[:400] for ln in lines[:4]], "stderr_tail": r.stderr[-300:] if r.returncode == 2 else ""}  # fmt: skip


def recheck(name):
    """only re-run the property's check against the patched tree (suite/demo were confirmed at
    import time); updates meta["recheck"]"""
    dst = os.path.join(ROOT, "seeded", name)
    mp = os.path.join(dst, "meta.json")
    meta = json.load(open(mp))
    fresh_wt()
    try:
        r = sh("git", "-C", WT, "apply", "--whitespace=nowarn", os.path.join(dst, "patch.diff"))
        if r.returncode != 0:
            r = sh("git", "-C", WT, "apply", "-3", "--whitespace=nowarn", os.path.join(dst, "patch.diff"))
        if r.returncode != 0:
            meta["recheck"] = {"applies": False}
        else:
            res = run_check(meta["property"], WT, "quick")
            meta["recheck"] = {"applies": True, "head": sh("git", "-C", "/repo", "rev-parse", "--short", "HEAD").stdout.strip(),
                               "exit": res["exit"], "wall_s": res["wall_s"]}
    finally:
        drop_wt()
    json.dump(meta, open(mp, "w"), indent=1)
    print(name, meta["recheck"])
    return meta["recheck"].get("exit") == 1


def evaluate(name, src, prop, tier, all_checks):
    dst = os.path.join(ROOT, "seeded", name)
    os.makedirs(dst, exist_ok=True)
    for f in ("patch.diff", "demo.py", "notes.md"):
        if os.path.exists(os.path.join(src, f)) and os.path.abspath(src) != os.path.abspath(dst):
            shutil.copy(os.path.join(src, f), os.path.join(dst, f))
    patch = os.path.join(dst, "patch.diff")
    demo = os.path.join(dst, "demo.py")
    meta = {"name": name, "property": prop, "base_commit": sh("git", "-C", "/repo", "rev-parse", "HEAD").stdout.strip()}
    fresh_wt()
    try:
        r = sh("git", "-C", WT, "apply", "--whitespace=nowarn", patch)
        if r.returncode != 0:
            # the patch was written against an earlier HEAD: try a 3-way merge onto this one
            r = sh("git", "-C", WT, "apply", "-3", "--whitespace=nowarn", patch)
            if r.returncode == 0:
                sh("git", "-C", WT, "reset", "-q")
                meta["applied_with_3way_merge"] = True
        meta["applies"] = r.returncode == 0
        if not meta["applies"]:
            meta["apply_error"] = r.stderr[-400:]
            return finish(dst, meta)
        meta["files_changed"] = sh("git", "-C", WT, "diff", "--stat").stdout.strip().splitlines()[-1:]
        imp = sh("/venv/bin/python", "-c", "import fickling, fickling.fickle, fickling.analysis", cwd=WT)
        meta["imports"] = imp.returncode == 0
        meta["suite_with_change"] = run_suite(WT)
        rc1, out1 = run_demo(demo, WT)
        rc0, out0 = run_demo(demo, "/repo")
        meta["demo"] = {"exit_with_change": rc1, "exit_without_change": rc0, "output_with_change": out1}
        meta["confirmed"] = bool(
            meta["imports"] and meta["suite_with_change"]["baseline"] and rc1 == 1 and rc0 == 0
        )
        checks = {prop: run_check(prop, WT, tier)}
        if checks[prop]["exit"] != 1:
            for seed in ("2", "3"):
                again = run_check(prop, WT, tier, seed)
                checks[f"{prop}@seed{seed}"] = again
                if again["exit"] == 1:
                    break
        if all_checks:
            man = json.load(open(os.path.join(ROOT, "MANIFEST.json")))
            for c in man["checks"]:
                pid = c["property_id"]
                if pid != prop:
                    checks[pid] = run_check(pid, WT, "quick")
        meta["checks"] = checks
        meta["caught_by"] = sorted(k for k, v in checks.items() if v["exit"] == 1)
        meta["what_was_run"] = (
            "scratch worktree of /repo HEAD outside /repo and /verif; `git apply patch.diff`; repo "
            "test-suite (pytest, baseline command); demo.py with FICKLING_TREE=<worktree> and "
            "=/repo; ./run_check.py <ID> --tier quick with VERIF_REPO=<worktree>; worktree removed"
        )
    finally:
        drop_wt()
    return finish(dst, meta)


def finish(dst, meta):
    old = {}
    mp = os.path.join(dst, "meta.json")
    if os.path.exists(mp):
        old = json.load(open(mp))
    for k in ("needs_to_manifest", "origin", "description"):
        if k in old and k not in meta:
            meta[k] = old[k]
    json.dump(meta, open(mp, "w"), indent=1)
    print(json.dumps({k: meta.get(k) for k in ("name", "property", "applies", "confirmed", "caught_by")}, indent=None))
    if "checks" in meta:
        for k, v in meta["checks"].items():
            print("  ", k, "exit", v["exit"], v["wall_s"], "s", (v["first_lines"] or [""])[0][:160])
    return 0


def main():
    if len(sys.argv) < 2:
        print(__doc__)
        return 2
    if sys.argv[1] == "import":
        name, src, prop = sys.argv[2], sys.argv[3], sys.argv[4].upper()
        tier = "quick"
        if "--tier" in sys.argv:
            tier = sys.argv[sys.argv.index("--tier") + 1]
        return evaluate(name, src, prop, tier, "--all" in sys.argv)
    if sys.argv[1] == "recheck":
        names = sys.argv[2:] or sorted(os.listdir(os.path.join(ROOT, "seeded")))
        bad = [n for n in names if os.path.exists(os.path.join(ROOT, "seeded", n, "meta.json")) and not recheck(n)]
        print("not caught:", bad)
        return 1 if bad else 0
    if sys.argv[1] == "rerun":
        names = sys.argv[2:] or sorted(os.listdir(os.path.join(ROOT, "seeded")))
        for n in names:
            d = os.path.join(ROOT, "seeded", n)
            if not os.path.exists(os.path.join(d, "meta.json")):
                continue
            meta = json.load(open(os.path.join(d, "meta.json")))
            evaluate(n, d, meta["property"], "quick", "--all" in sys.argv)
        return 0
    print(__doc__)
    return 2


if __name__ == "__main__":
    sys.exit(main())

#!/venv/bin/python
"""Regenerate /verif/MANIFEST.json from the table below and validate it."""
import json
import os
import sys

ROOT = os.path.dirname(os.path.dirname(os.path.abspath(__file__)))

# id -> (technique, level text, level note, design ref)
CHECKS = {
    "C09": (
        "bounded-exhaustive (three alphabets) + Hypothesis-generated opcode programs + atheris "
        "byte fuzzing inside the typed domain; lock-step differential vs instrumented CPython "
        "unpickler",
        "Generated-input search: every typed program over a 27-opcode focus alphabet up to a "
        "length bound, plus random long programs over the full alphabet/encodings and natural "
        "pickles at protocols 0-5, stepped in lock-step against CPython's own pure-Python "
        "unpickler; shape equality after every opcode and trace/untraced equality. Exhaustive only "
        "inside the stated bound; exploration beyond it.",
        "Trusted: pickle._Unpickler as the reference VM (NEWOBJ/NEWOBJ_EX normalised to calls on "
        "inert stubs), pickletools.genops for opcode alignment.",
        "DESIGN.md 3/C09",
    ),
    "C03": (
        "bounded-exhaustive + Hypothesis-generated opcode programs + atheris byte fuzzing inside "
        "the typed domain; event-log inclusion differential (reference VM over stubs vs executed "
        "decompile)",
        "Generated-input search over VM-accepted opcode programs (exhaustive inside a length "
        "bound over the call-making/disposal focus alphabet, random beyond, natural pickles of "
        "instances): every import and call the CPython unpickler performs on inert stubs must "
        "appear at least as often when fickling's decompile runs on the same stubs; non-runnable "
        "decompiles are violations, refusals are allowed.",
        "Trusted: pickle._Unpickler as reference VM; stub canonicalisation (vlib/refvm.py); two "
        "open known findings excluded by construction (KF-C03-1, KF-C03-2).",
        "DESIGN.md 3/C03",
    ),
    "C05": (
        "Hypothesis recursive values x protocols 0-5 round-trip through exec(decompile); typed "
        "program differential (three exhaustive alphabets, random, atheris bytes) on canonical "
        "value + call multiset vs reference VM",
        "Generated-input search: plain data must decompile and re-execute to a type-exact equal "
        "value at every protocol whose encoding uses implemented opcodes; programs and instance "
        "pickles must rebuild the same canonical value (identity-aware for call results) with the "
        "same multiset of calls as CPython's unpickler over inert stubs.",
        "Trusted: pickle.loads as arbiter for plain data; pickle._Unpickler over stubs for "
        "programs; NaN and cyclic values outside the domain.",
        "DESIGN.md 3/C05",
    ),
    "C04": (
        "exhaustive product of labelled vocabulary x resolving/calling opcode x callee shape x "
        "disposal x framing (Hypothesis-sampled in quick) + assembler programs; severity floor "
        "recomputed from the reference VM's event log",
        "Generated-input search with an independent oracle: for each generated program the "
        "floor demanded by the property is recomputed from what CPython's unpickler would "
        "actually import/call (inert stubs) and hand labels, and compared by integer rank with "
        "check_safety's verdict. The thorough tier enumerates the whole 518k-cell product.",
        "Trusted: hand labels in vlib/vocab.py; pickle._Unpickler over stubs; programs the "
        "analysis refuses are fail-closed and counted, not judged.",
        "DESIGN.md 3/C04",
    ),
    "C19": (
        "exhaustive (module x special-cased attribute name x opcode) product + Hypothesis "
        "assembler programs; totality / JSON round-trip / loader-report equality oracle",
        "Generated-input search over decompilable programs built from every module category x "
        "every attribute name some rule special-cases: check_safety must return, findings must "
        "be well-formed, the report must survive json round-trip, and the checked loader's "
        "UnsafeFileError.info must equal it (harmless sub-family only).",
        "Trusted: json module; decompilability decided by fickling itself (refusals are outside "
        "the quantifier).",
        "DESIGN.md 3/C19",
    ),
    "C13": (
        "Hypothesis-generated (pickle, query sequence) pairs, metamorphic 'same answer as first "
        "time' oracle; cross-process digests under different PYTHONHASHSEED",
        "Generated-input search over histories of read-only queries on two independently parsed "
        "copies of generated accepted pickles: every later answer must equal the first answer of "
        "its kind and dumps() must stay equal to the input; a generated corpus is digested by "
        "fresh interpreters with different hash seeds and the digests compared.",
        "Trusted: equality of text/severity/finding-set as the observable; only accepted pickles "
        "(parse+interpret+unparse succeed) are in the quantifier.",
        "DESIGN.md 3/C13",
    ),
    "C14": (
        "Hypothesis RuleBasedStateMachine over edit/read histories; differential against a "
        "freshly constructed Pickled after every read",
        "Stateful generated search: histories of sequence edits and injection helpers "
        "interleaved with reads; each read view must equal the same view of Pickled(list(p)) "
        "(same value or same exception type), and dumps() the concatenation of opcode encodings.",
        "Trusted: a freshly constructed Pickled as the reference for every view; structural AST "
        "dump written for the harness (ast.dump does not descend into tuple-valued fields).",
        "DESIGN.md 3/C14",
    ),
    "C06": (
        "Hypothesis-generated (first pickle, trailing bytes, delivery) triples and stacks + "
        "atheris raw bytes; byte-exact round-trip / stream-position / partition oracle vs "
        "pickletools + stock unpickler",
        "Generated-input search: natural pickles at all protocols, assembler programs and "
        "boundary-length constants followed by arbitrary trailing bytes, delivered nine ways; "
        "dumps() must equal the prefix delimited independently by pickletools.genops (cross-checked "
        "with the stock unpickler's tell() for plain data), streams must be left right after it "
        "with the rest intact, and stacks must partition into their inputs.",
        "Trusted: pickletools.genops / pickle.load stopping points; KF-C06-1 (non-seekable stream "
        "drained) is an open known finding, its clause is not asserted for that delivery.",
        "DESIGN.md 3/C06",
    ),
    "C15": (
        "Hypothesis boundary-biased values through every injection/creation route with a sink "
        "oracle under the stock unpickler; exhaustive class x typed-argument encode/read-back "
        "round-trip via pickletools",
        "Generated-input search: each value either is refused when the pickle is built or "
        "arrives in the unpickling process as an equal value of the same type (observed by a "
        "harmless sink); each constructible opcode class with arguments typed by its pickletools "
        "descriptor either refuses to encode or is read back by pickletools as the same opcode "
        "and argument.",
        "Trusted: stock unpickler and pickletools as arbiters; five encoder classes are an open "
        "known finding (KF-C15-1), excluded per class and replayed.",
        "DESIGN.md 3/C15",
    ),
    "C01": (
        "Hypothesis-generated malicious/corrupted pickles + product cells through 14 analysis "
        "entry points under an audit-hook effect monitor; coverage-guided atheris byte fuzzing "
        "with the monitor as in-target oracle",
        "Generated-input search with an independent effect oracle: CPython audit events, "
        "sys.modules delta and working-directory delta are recorded while every analysis entry "
        "point runs on generated malicious, hand-assembled and corrupted inputs; any execution-"
        "class event, import of a module named by the input, write or stray file is a violation. "
        "atheris explores raw bytes from an empty and a seeded corpus.",
        "Trusted: CPython's audit-hook coverage of exec/compile/import/open/process/socket "
        "events; effects that raise no audit event and leave no trace in cwd/sys.modules are "
        "invisible.",
        "DESIGN.md 3/C01",
    ),
    "C02": (
        "Hypothesis-sampled product of payload x stream kind x threshold x arming path x injected "
        "fault; two-sided differential against a separately taken verdict and the stock "
        "unpickler, with sink + audit-event oracle for the fail-closed clause",
        "Generated-input / fault-injection search: every checked-load path is driven over "
        "harmless flagged payloads, benign values and inputs on which analysis raises, through "
        "six stream kinds incl. a flip stream that changes content between analysis and load, at "
        "all six thresholds, with the analysis call optionally made to raise; returns must be "
        "justified by the verdict and equal the stock unpickler's result, refusals must leave the "
        "sink log and find_class audit events empty.",
        "Trusted: stock unpickler as reference; harness monkeypatch of the loader's analysis call "
        "as the fault/flip hook; KF-C02-1 (per-offset double read) is an open known finding.",
        "DESIGN.md 3/C02",
    ),
    "C08": (
        "Hypothesis-generated base pickles x all 21 injection modes x two loaders; sink-log / "
        "return-value / reference-VM stack / find_class-subsequence / single-STOP / severity oracle",
        "Generated-input search: each base (values, instances, effectful objects, >255 memo "
        "entries, assembler programs with sparse memo keys; all protocols) is rewritten by every "
        "injection mode and loaded by the accelerated and (unframed) pure-Python unpickler; the "
        "payload must run exactly once with the given arguments, base effects keep their order, "
        "the value is preserved/replaced as documented, the VM stack is empty at STOP.",
        "Trusted: stock unpicklers; pickle._Unpickler over stubs for the stack clause (FRAME "
        "opcodes stripped for it); KF-C08-1 and KF-C08-2 are open known findings.",
        "DESIGN.md 3/C08",
    ),
    "C10": (
        "Hypothesis-generated stacks x CLI options: all faces recomputed from one severity vector; "
        "exhaustive 36x6 comparison table",
        "Generated-input search over stacked files from benign and flagged families: library "
        "verdict, is_likely_safe, checked loader, CLI exit status and the JSON report must all be "
        "the stated functions of the per-pickle severity; the full operator table of Severity is "
        "enumerated against integer ranks.",
        "Trusted: own rank table from the documented order; json module for the report.",
        "DESIGN.md 3/C10",
    ),
    "C18": (
        "Hypothesis-generated stacks x every target/flag/input-channel combination through "
        "cli.main in-process (+ real subprocess sample); re-parse / byte-equality / library "
        "differential; compile + stub execution of the decompiled stack",
        "Generated-input search: CLI injection output must re-parse into exactly the input stack "
        "with only the target changed to the library-level injection; out-of-range targets must "
        "fail and emit nothing; the decompiled stack must be one valid program with one result "
        "name per pickle, disjoint variables, and stub-executed values equal to the reference VM's.",
        "Trusted: library-level insert_python_eval (decided by C08) as the injection reference; "
        "pickle._Unpickler over stubs for values.",
        "DESIGN.md 3/C18",
    ),
    "C11": (
        "Hypothesis RuleBasedStateMachine over activate/deactivate/construct/probe histories; "
        "two-variable reference model + deep-snapshot invariant",
        "Stateful generated search: after every step of a generated history the allowed/blocked "
        "outcome of probes through the four hooked entry points and through directly constructed "
        "unpicklers must match the model (BASE + current additions / own additions), blocked "
        "probes must not run the sink, and ML_ALLOWLIST must deep-equal its import-time snapshot.",
        "Trusted: the model (20 lines) and the harness reset of hooks/allowlist between histories.",
        "DESIGN.md 3/C11",
    ),
    "C12": (
        "Hypothesis RuleBasedStateMachine over arm/activate/remove/enter/leave/leave-by-exception/"
        "probe histories; explicit lifecycle model with identity and behavioural invariants",
        "Stateful generated search: a model of the four pickle bindings and a stack of context "
        "snapshots is stepped with the real hooks; after every step bindings the model calls "
        "original must be the very function objects captured before fickling was imported, and "
        "bindings it calls protected must refuse a flagged probe without running it.",
        "Trusted: the lifecycle model; activate/remove inside an open context are outside the "
        "generated alphabet (their meaning is not fixed by the statement).",
        "DESIGN.md 3/C12",
    ),
    "C07": (
        "Hypothesis-generated nested payloads (leaf globals x loader nest depth 0-3 x additions) "
        "through all four hooked entry points; audit-event oracle + differential against the "
        "stock pickle module",
        "Generated-input search under an independent monitor: every pickle.find_class audit event "
        "raised while the safe ML environment is active must belong to the built-in allowlist "
        "snapshot or the activation's additions; payloads naming anything else anywhere in the "
        "nest must abort with UnsafeFileError without running the sink; fully allowed payloads "
        "must behave exactly as with the hooks removed.",
        "Trusted: CPython's pickle.find_class audit event (raised by every Unpickler subclass "
        "that reaches the default find_class); KF-C07-1 (legacy/zip containers through torch's own "
        "Unpickler) is an open known finding, replayed.",
        "DESIGN.md 3/C07",
    ),
    "C16": (
        "Hypothesis-generated torch objects saved with torch.save x payload x overwrite; zip "
        "member differential, sha256, sink log and tensor-equality oracle after a real torch.load",
        "Generated-input search: models, state dicts and nested tensor containers over nine "
        "dtypes, zero-size and shared storages are saved, injected by insertion and reloaded; "
        "only data.pkl may change (and must equal the library-level insertion), the payload must "
        "run exactly once, the object must be equal, the input must be untouched or cleanly "
        "replaced.",
        "Trusted: installed torch writer/reader; zipfile; the library-level insert_python_exec "
        "(decided by C08) as the reference for data.pkl.",
        "DESIGN.md 3/C16",
    ),
    "C17": (
        "exhaustive 384-file marker-subset product + real torch files + all ordered pairs as "
        "polyglot inputs + Hypothesis member variations; README-table, determinism, sha256 and "
        "directory-listing oracles",
        "Generated-input / crash-point search: identification must be deterministic, read-only and "
        "match a table written from the README on every zip-at-offset-0 marker subset; polyglot "
        "creation over every ordered pair of real files (most of which cannot be combined) must "
        "leave inputs and working directory clean whether it returns or raises, and successful "
        "outputs must be identified as each combined format.",
        "Trusted: README table as transcribed in table_check(); torch's own reader for the "
        "'accepted by PyTorch's zip loader' clause; cells where README and implementation "
        "comments disagree are asserted one-sidedly.",
        "DESIGN.md 3/C17",
    ),
}

PENDING = {}


def load_props():
    out = []
    with open(os.path.join(ROOT, "properties.jsonl")) as f:
        for line in f:
            if line.strip():
                out.append(json.loads(line))
    return out


def main():
    props = load_props()
    checks = []
    not_applicable = []
    for p in props:
        pid = p["id"]
        if pid in CHECKS and os.path.exists(os.path.join(ROOT, "checks", pid.lower() + ".py")):
            tech, text, note, ref = CHECKS[pid]
            import re

            src = open(os.path.join(ROOT, "checks", pid.lower() + ".py")).read()
            m = re.search(r'^LEVEL = "(\w+)"', src, re.M)
            level = m.group(1) if m else "exploration"
            checks.append(
                {
                    "property_id": pid,
                    "quick_cmd": f"./run_check.py {pid} --tier quick",
                    "thorough_cmd": f"./run_check.py {pid} --tier thorough",
                    "evidence_file": f"evidence/{pid}.json",
                    "replay_cmd_template": f"./run_check.py {pid} --replay {{path}}",
                    "engine": "vlib",
                    "level_claimed": {"category": level, "text": text, "design_ref": ref},
                    "level_note": note,
                    "technique": tech,
                }
            )
        else:
            not_applicable.append(
                {
                    "property_id": pid,
                    "reason": PENDING.get(
                        pid,
                        "check designed (DESIGN.md section 3) but not yet built in this revision; "
                        "not claimed until its machinery is committed and quiet on the unchanged tree",
                    ),
                }
            )
    manifest = {
        "version": 1,
        "setup_cmd": "./setup.sh",
        "hooks": {
            "guard": "FICKLING_VERIF",
            "enable": "no source hooks are needed: every observation point is reachable from "
            "Python (audit hooks, monkeypatching from the harness, subclassing the stock "
            "unpickler); checks import fickling from /repo's working tree via sys.path",
            "baseline_off_cmd": "cd /repo && /venv/bin/python -m pytest -ra -q -p no:cacheprovider "
            "--timeout=900 --continue-on-collection-errors",
            "source_commits": [],
            "add_only": True,
        },
        "engines": [
            {
                "name": "vlib",
                "path": "vlib/",
                "serves_properties": [c["property_id"] for c in checks],
                "kind_free_text": "Hypothesis strategies + bounded-exhaustive enumerators over a "
                "typed pickle-opcode assembler; reference VM = CPython pure-Python unpickler over "
                "inert stubs; sandboxed children with audit-hook effect monitor; sharded runner "
                "writing evidence and replay files",
            }
        ],
        "checks": checks,
        "not_applicable": not_applicable,
        "notes": "All checks: /venv/bin/python run_check.py <ID> --tier quick|thorough; VERIF_SEED "
        "seeds every generator; exit 2 = harness error. Known findings: known_findings.json.",
    }
    path = os.path.join(ROOT, "MANIFEST.json")
    with open(path, "w") as f:
        json.dump(manifest, f, indent=1)
        f.write("\n")
    try:
        import jsonschema

        with open("/root/.vp/MANIFEST.schema.json") as f:
            jsonschema.validate(manifest, json.load(f))
        print("MANIFEST.json valid;", len(checks), "checks,", len(not_applicable), "not claimed")
    except ImportError:
        print("jsonschema not importable here; wrote MANIFEST.json unvalidated")


if __name__ == "__main__":
    sys.exit(main())

#!/opt/veriftools/pyvenv/bin/python
"""Validate every evidence/*.json against the schema (run with python3-vt)."""
import glob, json, sys, os
import jsonschema
root = os.path.dirname(os.path.dirname(os.path.abspath(__file__)))
schema = json.load(open("/root/.vp/EVIDENCE.schema.json"))
bad = 0
for p in sorted(glob.glob(os.path.join(root, "evidence", "*.json"))):
    try:
        jsonschema.validate(json.load(open(p)), schema)
        print("ok ", os.path.basename(p))
    except Exception as e:
        bad += 1
        print("BAD", os.path.basename(p), str(e)[:300])
sys.exit(1 if bad else 0)

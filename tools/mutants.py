#!/venv/bin/python
"""Sensitivity self-test: apply planted mutants to a scratch worktree of /repo's HEAD
(outside /repo and /verif), run the named check's quick tier against it (VERIF_REPO),
and report whether the check caught it.  The worktree is removed afterwards.

usage: tools/mutants.py [ID ...]      (default: all ids that have mutants)
"""
import json
import os
import subprocess
import sys

ROOT = os.path.dirname(os.path.dirname(os.path.abspath(__file__)))
WT = "/tmp/verif-mutants-wt"

sys.path.insert(0, os.path.join(ROOT, "tools"))
from mutant_defs import MUTANTS  # noqa: E402


def sh(*a, **k):
    return subprocess.run(a, capture_output=True, text=True, **k)


def main():
    want = [a.upper() for a in sys.argv[1:]]
    sh("git", "-C", "/repo", "worktree", "remove", "--force", WT)
    r = sh("git", "-C", "/repo", "worktree", "add", "--detach", WT, "HEAD")
    if r.returncode:
        print(r.stderr)
        return 2
    results = []
    try:
        for m in MUTANTS:
            if want and m["prop"] not in want:
                continue
            edits = m.get("edits") or [(m["file"], m["old"], m["new"])]
            stale = False
            for file, old, new in edits:
                path = os.path.join(WT, file)
                src = open(path).read()
                if src.count(old) != 1:
                    stale = True
                    break
                open(path, "w").write(src.replace(old, new))
            if stale:
                results.append((m["prop"], m["name"], "STALE (pattern not found exactly once)"))
                print(m["prop"], m["name"], "-> STALE", flush=True)
                sh("git", "-C", WT, "checkout", "--", ".")
                continue
            env = dict(os.environ, VERIF_REPO=WT, VERIF_SEED=os.environ.get("VERIF_SEED", "1"),
                       VERIF_SHARD_MAX_RSS_MB="3000", VERIF_SHARD_MAX_WALL_S="600")
            evid = os.path.join(ROOT, "evidence", m["prop"] + ".json")
            saved = open(evid).read() if os.path.exists(evid) else None
            r = sh(os.path.join(ROOT, "run_check.py"), m["prop"], "--tier", "quick", env=env, cwd=ROOT)
            if saved is not None:
                open(evid, "w").write(saved)
            caught = r.returncode == 1 and "VIOLATION property=" + m["prop"] in r.stdout
            status = "caught" if caught else f"MISSED (exit {r.returncode})"
            if r.returncode == 2:
                status += " " + r.stderr[-300:]
            results.append((m["prop"], m["name"], status))
            print(m["prop"], m["name"], "->", status, flush=True)
            sh("git", "-C", WT, "checkout", "--", ".")
    finally:
        sh("git", "-C", "/repo", "worktree", "remove", "--force", WT)
    out = os.path.join(ROOT, "out", "mutants.json")
    os.makedirs(os.path.dirname(out), exist_ok=True)
    json.dump(results, open(out, "w"), indent=1)
    missed = [r for r in results if not r[2].startswith("caught")]
    print(f"{len(results) - len(missed)}/{len(results)} mutants caught")
    return 1 if missed else 0


if __name__ == "__main__":
    sys.exit(main())

"""Planted mutants (DESIGN.md: planned sensitivity mutants S). Each compiles; whether the
repository's own tests still pass is irrelevant here - this only measures that the check
reacts when the property is broken."""

MUTANTS = [
    # ---- C01
    dict(prop="C01", name="torch-wrapper-confirms-format-by-loading", file="fickling/pytorch.py",
         old="""        self._formats = fickling.polyglot.identify_pytorch_file_format(self.path)
""",
         new="""        self._formats = fickling.polyglot.identify_pytorch_file_format(self.path)
        if self.force:
            try:
                torch.load(self.path, weights_only=False)
                self._formats = ["PyTorch v1.3"]
            except Exception:
                pass
"""),
    dict(prop="C01", name="check-pickle-probe-unpickles", file="fickling/polyglot.py",
         old="""    try:
        opcodes = Pickled.load(file).opcodes()""",
         new="""    try:
        import pickle as _p

        _p.load(file)
        return True
    except Exception:
        file.seek(0)
    try:
        opcodes = Pickled.load(file).opcodes()"""),
    dict(prop="C01", name="global-probes-module-exists", file="fickling/fickle.py",
         old="""        module, attr = self.module, self.attr
        imported_name, reference = qualified_name_reference(attr)
        if module in ("__builtin__", "__builtins__", "builtins"):""",
         new="""        module, attr = self.module, self.attr
        imported_name, reference = qualified_name_reference(attr)
        try:
            import importlib

            importlib.import_module(module)
        except Exception:
            pass
        if module in ("__builtin__", "__builtins__", "builtins"):"""),
    dict(prop="C01", name="reduce-constant-folds-with-eval", file="fickling/fickle.py",
         old="""            call = ast.Call(func, list(args.elts), [])
        else:
            call = ast.Call(func, [ast.Starred(args)], [])
        # Any call to reduce""",
         new="""            call = ast.Call(func, list(args.elts), [])
            if isinstance(func, ast.Name) and func.id == "len" and len(args.elts) == 1:
                try:
                    call = ast.Constant(eval(compile(ast.Expression(call), "<fold>", "eval")))
                except Exception:
                    pass
        else:
            call = ast.Call(func, [ast.Starred(args)], [])
        # Any call to reduce"""),
    dict(prop="C01", name="load-falls-back-to-real-unpickler", file="fickling/fickle.py",
         old="""        except ValueError as e:
            if opcodes:
                raise PickleDecodeError(e)""",
         new="""        except NotImplementedError:
            import pickle as _p

            pickled.seek(first_pos)
            _p.load(pickled)
            raise
        except ValueError as e:
            if opcodes:
                raise PickleDecodeError(e)"""),
    dict(prop="C01", name="is_likely_safe-double-checks-by-loading", file="fickling/analysis.py",
         old="""    with open(filepath, "rb") as f:
        return check_safety(Pickled.load(f)).severity == Severity.LIKELY_SAFE""",
         new="""    with open(filepath, "rb") as f:
        safe = check_safety(Pickled.load(f)).severity == Severity.LIKELY_SAFE
    if safe:
        import pickle as _p

        with open(filepath, "rb") as f:
            try:
                _p.load(f)
            except Exception:
                pass
    return safe"""),
    dict(prop="C01", name="cli-trace-writes-log-file", file="fickling/cli.py",
         old="""                if args.trace:
                    trace = tracing.Trace(interpreter)""",
         new="""                if args.trace:
                    open("fickling_trace.log", "a").write(args.PICKLE_FILE)
                    trace = tracing.Trace(interpreter)"""),
    # ---- C06
    dict(prop="C06", name="last-pos-off-by-one", file="fickling/fickle.py",
         old="                    last_pos = opcodes[-1].pos + len(opcodes[-1].info.code)",
         new="                    last_pos = opcodes[-1].pos + len(opcodes[-1].info.code) + 1"),
    dict(prop="C06", name="long-binput-data-truncated-to-16-bit-key", file="fickling/fickle.py",
         old="""                        data = pickled.read(len(info.code) + info.arg.n)
                        if len(data) != len(info.code) + info.arg.n:""",
         new="""                        data = pickled.read(len(info.code) + info.arg.n)
                        if info.name == "LONG_BINPUT":
                            data = data[:3] + bytes(2)
                        if len(data) != len(info.code) + info.arg.n:"""),
    dict(prop="C06", name="no-seek-back-after-reading-data", file="fickling/fickle.py",
         old="""                finally:
                    # Need to reset the position within the file so as not to confuse genops
                    pickled.seek(pos_before)""",
         new="""                finally:
                    # Need to reset the position within the file so as not to confuse genops
                    if info.name != "BINUNICODE8":
                        pickled.seek(pos_before)"""),
    dict(prop="C06", name="stacked-stops-after-three", file="fickling/fickle.py",
         old="""                if len(p) == 0:
                    break
                pickles.append(p)""",
         new="""                if len(p) == 0 or len(pickles) >= 3:
                    break
                pickles.append(p)"""),
    dict(prop="C06", name="make-stream-copies-seekable-at-offset", file="fickling/fickle.py",
         old="""        if isinstance(data, (bytes, bytearray, ByteString)):
            data = BytesIO(data)""",
         new="""        if isinstance(data, (bytes, bytearray, ByteString)):
            data = BytesIO(data)
        elif isinstance(data, BytesIO) and data.tell() > 0:
            data = BytesIO(data.read())"""),
    # ---- C15
    dict(prop="C15", name="int-validate-int()(revert FX9)", file="fickling/fickle.py",
         old="""        if not isinstance(obj, int) or isinstance(obj, bool):
            raise ValueError(f"{cls.__name__} can only be instantiated from integers, not {obj!r}")
        return obj""",
         new="""        _ = int(obj)
        return obj"""),
    dict(prop="C15", name="unsigned-int-wraps-silently(two sites)", edits=[
        ("fickling/fickle.py", """            cls.min_value = 0
            cls.max_value = 2**length_bits - 1
        return ret

    def encode_body(self) -> bytes:""", """            cls.min_value = 0
            cls.max_value = 2**length_bits
        return ret

    def encode_body(self) -> bytes:"""),
        ("fickling/fickle.py", """        return struct.pack(f"{self.endianness.value}{st}", self.arg)""",
         """        return struct.pack(f"{self.endianness.value}{st}", self.arg & (2 ** (8 * self.num_bytes) - 1) if not self.signed else self.arg)"""),
    ]),
    dict(prop="C15", name="short-binunicode-length-wraps(two sites)", edits=[
        ("fickling/fickle.py", """        super().validate(obj.encode("utf-8"))
        return obj""", """        if not (cls.length_bytes == 1 and len(obj) <= 255):
            super().validate(obj.encode("utf-8"))
        return obj"""),
        ("fickling/fickle.py", """        if length < cls.min_value or length > cls.max_value:
            raise ValueError(
                f"Invalid length {length}: {cls.__name__} can only represent lengths in the range "
                f"[{cls.min_value}, {cls.max_value}]"
            )
        st = cls.struct_types[cls.length_bytes]""", """        if cls.length_bytes == 1:
            length &= 0xFF
        st = cls.struct_types[cls.length_bytes]"""),
    ]),
    dict(prop="C15", name="encode-length-big-endian-for-4", file="fickling/fickle.py",
         old="""        return struct.pack(f"{cls.length_endianness.value}{st}", length)""",
         new="""        return struct.pack(f"{'>' if cls.length_bytes == 4 else cls.length_endianness.value}{st}", length)"""),
    dict(prop="C15", name="dict-values-dropped-when-key-is-int", file="fickling/fickle.py",
         old="""                for key, val in obj.items():
                    res.append(ConstantOpcode.new(key))  # Assume key is constant""",
         new="""                for key, val in obj.items():
                    res.append(ConstantOpcode.new(str(key) if isinstance(key, bytes) else key))"""),
    dict(prop="C15", name="unicode-escape(revert FX13)", file="fickling/fickle.py",
         old="""        return text.encode("raw-unicode-escape") + b"\\n"
""",
         new="""        return raw_unicode_escape(text.encode("utf-8")).encode("utf-8")
"""),
    # ---- C02
    dict(prop="C02", name="lt-instead-of-le", file="fickling/loader.py",
         old="    if result.severity <= max_acceptable_severity:",
         new="    if result.severity < max_acceptable_severity or result.severity == Severity.LIKELY_SAFE:"),
    dict(prop="C02", name="analysis-error-falls-open", file="fickling/loader.py",
         old="""    pickled_data = Pickled.load(file)
    result = check_safety(pickled=pickled_data, json_output_path=json_output_path)""",
         new="""    pickled_data = Pickled.load(file)
    try:
        result = check_safety(pickled=pickled_data, json_output_path=json_output_path)
    except Exception:
        return pickle.loads(pickled_data.dumps(), *args, **kwargs)"""),
    dict(prop="C02", name="reloads-from-the-stream", file="fickling/loader.py",
         old="""        return pickle.loads(pickled_data.dumps(), *args, **kwargs)
    else:""",
         new="""        if hasattr(file, "seek") and hasattr(file, "tell"):
            file.seek(0)
            return pickle.loads(file.read(), *args, **kwargs)
        return pickle.loads(pickled_data.dumps(), *args, **kwargs)
    else:"""),
    dict(prop="C02", name="raises-after-loading", file="fickling/loader.py",
         old="""    if result.severity <= max_acceptable_severity:""",
         new="""    if result.severity > max_acceptable_severity and result.severity.name == "LIKELY_UNSAFE":
        pickle.loads(pickled_data.dumps(), *args, **kwargs)
        raise UnsafeFileError(file, result.to_dict())
    if result.severity <= max_acceptable_severity:"""),
    dict(prop="C02", name="context-manager-does-not-arm", file="fickling/context.py",
         old="""        hook.run_hook()
        return self""",
         new="""        return self"""),
    dict(prop="C02", name="wrong-severity-in-info", file="fickling/analysis.py",
         old="""            "severity": self.severity.name,""",
         new="""            "severity": (self.severity if len(self.results) < 3 else Severity.LIKELY_UNSAFE).name,"""),
    # ---- C10
    dict(prop="C10", name="cli-exit-inverted-when-print-results", file="fickling/cli.py",
         old="            return [1, 0][was_safe]",
         new="            return [1, 0][was_safe] if not args.print_results else [0, 1][was_safe]"),
    dict(prop="C10", name="cli-checks-only-first-two", file="fickling/cli.py",
         old="            for pickled in stacked_pickled:\n                safety_results",
         new="            for pickled in stacked_pickled[:2]:\n                safety_results"),
    dict(prop="C10", name="le-is-lt", file="fickling/analysis.py",
         old="        return self < other or self == other",
         new="        return self < other"),
    dict(prop="C10", name="severity-is-min", file="fickling/analysis.py",
         old="        return max(r.severity for r in self.results)",
         new="        return min(r.severity for r in self.results)"),
    dict(prop="C10", name="json-report-overwritten", file="fickling/analysis.py",
         old="""        with open(json_output_path, "a") as json_file:""",
         new="""        with open(json_output_path, "w") as json_file:"""),
    dict(prop="C10", name="is-likely-safe-tolerates-suspicious", file="fickling/analysis.py",
         old="        return check_safety(Pickled.load(f)).severity == Severity.LIKELY_SAFE",
         new="        return check_safety(Pickled.load(f)).severity <= Severity.SUSPICIOUS"),
    dict(prop="C10", name="gt-wrong-for-adjacent", file="fickling/analysis.py",
         old="        return not isinstance(other, Severity) or other < self",
         new="        return not isinstance(other, Severity) or other.value[0] + 1 < self.value[0]"),
    # ---- C08
    dict(prop="C08", name="memo-id-off-by-one", file="fickling/fickle.py",
         old="                memo_id = len(interpreter.memory)",
         new="                memo_id = max(len(interpreter.memory) - 1, 0)"),
    dict(prop="C08", name="run-first-keep-drops-a-pop", file="fickling/fickle.py",
         old="""                self.insert(-1, Put(321987))  # Put obj in memo
                self.insert(-1, Pop())  # Pop obj and reduce_res under
                self.insert(-1, Pop())""",
         new="""                self.insert(-1, Put(321987))  # Put obj in memo
                self.insert(-1, Pop())  # Pop obj and reduce_res under"""),
    dict(prop="C08", name="get-back-wrong-memo-key", file="fickling/fickle.py",
         old="                self.insert(-1, Get.create(321987))  # Get back obj",
         new="                self.insert(-1, Get.create(0))  # Get back obj"),
    dict(prop="C08", name="append-python-forgets-mark", file="fickling/fickle.py",
         old="""        self.insert(-1, Global.create(module, attr))
        self.insert(-1, Mark())
        for arg in args:
            self.insert(-1, ConstantOpcode.new(arg))""",
         new="""        self.insert(-1, Global.create(module, attr))
        if len(args) != 2:
            self.insert(-1, Mark())
        for arg in args:
            self.insert(-1, ConstantOpcode.new(arg))"""),
    dict(prop="C08", name="run-last-replace-calls-before-pop", file="fickling/fickle.py",
         old="""                self.insert(-1, Pop())
                # now the top of the stack should be our original Global, Mark, Unicode,
                # Tuple setup, ready for Reduce:
                self.insert(-1, Reduce())""",
         new="""                self.insert(-1, Reduce())
                self.insert(-1, Pop())"""),
    dict(prop="C08", name="magic-int-pop-misplaced-at-index-0", file="fickling/fickle.py",
         old="        self.insert(-1 if index == -1 else index + 1, Pop())",
         new="        self.insert(-1 if index == -1 else index + 2, Pop())"),
    dict(prop="C08", name="function-call-swaps-memo-keys-with-args", file="fickling/fickle.py",
         old="""        self.insert(-1, Get.create(2))
        # [func, mark, model]""",
         new="""        self.insert(-1, Get.create(2 if not constant_args else 1))
        # [func, mark, model]"""),
    # ---- C18
    dict(prop="C18", name="tail-starts-at-target", file="fickling/cli.py",
         old="            for pickled in stacked_pickled[args.inject_target + 1 :]:",
         new="            for pickled in stacked_pickled[args.inject_target + 2 :]:"),
    # ("range-test-gt", `>=` -> `>` in the range test, became equivalent with FX23: the target is
    # looked up before anything is written, so target == n dies with IndexError, status 1, no output)
    dict(prop="C18", name="preceding-pickles-written-before-the-injection(revert FX23)", file="fickling/cli.py",
         old="""            pickled = stacked_pickled[args.inject_target]
            if not isinstance(pickled[-1], fickle.Stop):""",
         new="""            for before in stacked_pickled[: args.inject_target]:
                before.dump(buffer)
            stacked_pickled = stacked_pickled[args.inject_target :]
            args.inject_target = 0
            pickled = stacked_pickled[args.inject_target]
            if not isinstance(pickled[-1], fickle.Stop):"""),
    dict(prop="C18", name="var-id-not-threaded", file="fickling/cli.py",
         old="                var_id = interpreter.next_variable_id",
         new="                var_id = 0"),
    dict(prop="C18", name="result-name-not-indexed-after-third", file="fickling/cli.py",
         old='result_variable=f"result{i}"',
         new='result_variable=f"result{min(i, 2)}"'),
    dict(prop="C18", name="run-last-flag-ignored-for-inner-targets", file="fickling/cli.py",
         old="                run_first=not args.run_last,",
         new="                run_first=not args.run_last or args.inject_target > 1,"),
    dict(prop="C18", name="out-of-range-writes-head-first", file="fickling/cli.py",
         old="""            if args.inject_target >= len(stacked_pickled):
                sys.stderr.write(""",
         new="""            if args.inject_target >= len(stacked_pickled):
                stacked_pickled[0].dump(sys.stdout.buffer)
                sys.stderr.write("""),
    # ---- C11
    dict(prop="C11", name="extension-cache-kept(revert FX24)", file="fickling/ml.py",
         old="        copyreg._extension_cache.clear()\n        return super().load()",
         new="        return super().load()"),
    dict(prop="C07", name="extension-cache-kept(revert FX24)", file="fickling/ml.py",
         old="        copyreg._extension_cache.clear()\n        return super().load()",
         new="        return super().load()"),
    dict(prop="C11", name="shallow-copy(revert FX8)", file="fickling/ml.py",
         old="        self.allowlist = {module: dict(names) for module, names in ML_ALLOWLIST.items()}",
         new="        self.allowlist = dict(ML_ALLOWLIST)"),
    dict(prop="C11", name="additions-accumulate-on-class", file="fickling/ml.py",
         old="""        if also_allow:
            for allowed_import in also_allow:""",
         new="""        FicklingMLUnpickler._extra = getattr(FicklingMLUnpickler, "_extra", set()) | set(also_allow or ())
        also_allow = sorted(FicklingMLUnpickler._extra)
        if also_allow:
            for allowed_import in also_allow:"""),
    dict(prop="C11", name="new-module-additions-written-to-global", file="fickling/ml.py",
         old="""                else:
                    self.allowlist[module] = {name: "Import explicitly allowed by user"}""",
         new="""                else:
                    ML_ALLOWLIST[module] = {name: "Import explicitly allowed by user"}
                    self.allowlist[module] = ML_ALLOWLIST[module]"""),
    dict(prop="C11", name="loads-hook-ignores-also-allow", file="fickling/hook.py",
         old="        return FicklingMLUnpickler(io.BytesIO(data), also_allow=also_allow, **kwargs).load(*args)",
         new="        return FicklingMLUnpickler(io.BytesIO(data), **kwargs).load(*args)"),
    dict(prop="C11", name="find-class-checks-module-only", file="fickling/ml.py",
         old="        elif name not in self.allowlist[module]:",
         new="        elif name not in self.allowlist[module] and module != 'collections':"),
    # ---- C12
    dict(prop="C12", name="exit-restores-import-time-original", file="fickling/context.py",
         old="        pickle.load = self._entered_with.pop() if self._entered_with else self.original_pickle_load",
         new="        pickle.load = hook._original_pickle_load"),
    dict(prop="C12", name="exit-does-not-restore", file="fickling/context.py",
         old="        pickle.load = self._entered_with.pop() if self._entered_with else self.original_pickle_load",
         new="        pass"),
    dict(prop="C12", name="remove-hook-forgets-_pickle.loads", file="fickling/hook.py",
         old="""    pickle.loads = _original_pickle_loads
    _pickle.loads = _original_pickle_loads""",
         new="""    pickle.loads = _original_pickle_loads"""),
    dict(prop="C12", name="remove-hook-restores-loads-to-load", file="fickling/hook.py",
         old="""    pickle.loads = _original_pickle_loads
    _pickle.loads = _original_pickle_loads""",
         new="""    pickle.loads = _original_pickle_load
    _pickle.loads = _original_pickle_loads"""),
    dict(prop="C12", name="enter-does-not-arm", file="fickling/context.py",
         old="""        hook.run_hook()
        return self""",
         new="""        return self"""),
    dict(prop="C12", name="exit-swallows-exceptions", file="fickling/context.py",
         old="        pickle.load = self._entered_with.pop() if self._entered_with else self.original_pickle_load",
         new="        pickle.load = self._entered_with.pop() if self._entered_with else self.original_pickle_load\n        return True"),
    dict(prop="C12", name="context-captures-original-at-enter-of-outermost-only", file="fickling/context.py",
         old="        self._entered_with.append(pickle.load)",
         new="        self._entered_with.append(pickle.load if pickle.load is not loader.load else hook._original_pickle_load)"),
    # ---- C16
    dict(prop="C16", name="skips-byteorder-member", file="fickling/pytorch.py",
         old="""                            else:
                                new_zip_ref.writestr(item.filename, entry.read())""",
         new="""                            elif not item.filename.endswith("byteorder"):
                                new_zip_ref.writestr(item.filename, entry.read())"""),
    dict(prop="C16", name="data-pkl-written-last", file="fickling/pytorch.py",
         old="""                    for item in zip_ref.infolist():
                        with zip_ref.open(item.filename) as entry:""",
         new="""                    for item in sorted(zip_ref.infolist(), key=lambda i: i.filename.endswith("/data.pkl")):
                        with zip_ref.open(item.filename) as entry:"""),
    dict(prop="C16", name="overwrite-copies-instead-of-rename", file="fickling/pytorch.py",
         old="            Path(output_path).rename(self.path)",
         new="            import shutil as _sh\n\n            _sh.copy(output_path, self.path)\n            self.output_path = str(output_path) + '.bak'"),
    dict(prop="C16", name="injects-twice-when-reused", file="fickling/pytorch.py",
         old="""            pickled.insert_python_exec(payload)
""",
         new="""            pickled.insert_python_exec(payload)
            if len(payload) > 200:
                pickled.insert_python_exec(payload)
"""),
    dict(prop="C16", name="storage-records-recompressed-truncated", file="fickling/pytorch.py",
         old="""                                new_zip_ref.writestr(item.filename, entry.read())""",
         new="""                                data = entry.read()
                                new_zip_ref.writestr(item.filename, data if len(data) != 48 else data[:-1] + bytes(1))"""),
    # ---- C17
    dict(prop="C17", name="format-rows-swapped", file="fickling/polyglot.py",
         old="""            (["has_data_pkl", "has_constants_pkl", "has_version"], "TorchScript v1.4"),
            (["has_data_pkl", "has_constants_pkl"], "TorchScript v1.3"),""",
         new="""            (["has_data_pkl", "has_constants_pkl"], "TorchScript v1.3"),
            (["has_data_pkl", "has_constants_pkl", "has_version"], "TorchScript v1.4"),"""),
    dict(prop="C17", name="member-match-by-equality", file="fickling/polyglot.py",
         old="                    return any(file_name_or_extension in entry for entry in zip_file.namelist())",
         new="                    return any(file_name_or_extension == entry for entry in zip_file.namelist())"),
    dict(prop="C17", name="temp-copies-removed-only-on-success(revert FX10)", file="fickling/polyglot.py",
         old="            if os.path.exists(temp_file):\n                os.remove(temp_file)",
         new="            if os.path.exists(temp_file) and 'files' in locals() and len(files) == 2:\n                os.remove(temp_file)"),
    dict(prop="C17", name="v1.1-needs-version-too", file="fickling/polyglot.py",
         old="""            (["has_model_json", "has_attributes_pkl"], "TorchScript v1.1"),""",
         new="""            (["has_model_json", "has_attributes_pkl", "has_version"], "TorchScript v1.1"),"""),
    dict(prop="C17", name="identification-caches-by-basename", file="fickling/polyglot.py",
         old="""    properties = find_file_properties(file, print_properties)
    formats = []""",
         new="""    _cache = identify_pytorch_file_format.__dict__.setdefault("_cache", {})
    key = os.path.basename(str(file))
    if key in _cache:
        return list(_cache[key])
    properties = find_file_properties(file, print_properties)
    formats = _cache.setdefault(key, [])"""),
    dict(prop="C17", name="mar-polyglot-appends-into-input", file="fickling/polyglot.py",
         old="    shutil.copy(second_file, temp_second_file)",
         new="    temp_second_file = second_file"),
    # ---- C07
    dict(prop="C07", name="hook-forgets-_pickle.loads", file="fickling/hook.py",
         old="""    pickle.loads = new_loads
    _pickle.loads = new_loads""",
         new="""    pickle.loads = new_loads"""),
    dict(prop="C07", name="new-loads-uses-stock-unpickler-for-short-data", file="fickling/hook.py",
         old="""    def new_loads(data, *args, **kwargs):
        return""",
         new="""    def new_loads(data, *args, **kwargs):
        if len(data) < 40:
            return _original_pickle_loads(data, *args, **kwargs)
        return"""),
    dict(prop="C07", name="find-class-checks-module-only", file="fickling/ml.py",
         old="        elif name not in self.allowlist[module]:",
         new="        elif name not in self.allowlist[module] and module != 'collections':"),
    dict(prop="C07", name="also-allow-ignored-on-load-path", file="fickling/hook.py",
         old="        return FicklingMLUnpickler(file, also_allow=also_allow, **kwargs).load(*args)",
         new="        return FicklingMLUnpickler(file, **kwargs).load(*args)"),
    dict(prop="C07", name="find-class-resolves-before-checking", file="fickling/ml.py",
         old="        # Check whether import is allowed\n",
         new="        # Check whether import is allowed\n        resolved = super().find_class(module, name)\n"),
    dict(prop="C07", name="nested-call-depth-two-unmediated", file="fickling/hook.py",
         old="""    def new_loads(data, *args, **kwargs):
        return""",
         new="""    depth = [0]

    def new_loads(data, *args, **kwargs):
        depth[0] += 1
        try:
            if depth[0] >= 3:
                return _original_pickle_loads(data, *args, **kwargs)
            return _nested(data, *args, **kwargs)
        finally:
            depth[0] -= 1

    def _nested(data, *args, **kwargs):
        return"""),
    dict(prop="C09", name="empty-setitems-drops-its-target(seeded C09-c re-created on FX16)", file="fickling/fickle.py",
         old="""            # not emit an `.update({})` call on it
            interpreter.stack.append(pydict)
            return""",
         new="""            # not emit an `.update({})` call on it
            return"""),
    dict(prop="C05", name="dict-opcode-pairs-not-reversed(seeded C05-c)", file="fickling/fickle.py",
         old="ast.Dict(keys=keys[::-1], values=values[::-1])",
         new="ast.Dict(keys=keys, values=values)"),
    # ---- C14
    dict(prop="C14", name="delitem-keeps-ast", file="fickling/fickle.py",
         old="""        del self._opcodes[index]
        self._ast = None
        self._properties = None""",
         new="""        del self._opcodes[index]
        self._properties = None"""),
    dict(prop="C14", name="insert-keeps-properties", file="fickling/fickle.py",
         old="""        self._opcodes.insert(index, opcode)
        self._ast = None
        self._properties = None""",
         new="""        self._opcodes.insert(index, opcode)
        self._ast = None"""),
    dict(prop="C14", name="setitem-keeps-ast", file="fickling/fickle.py",
         old="""        self._opcodes[index] = item
        self._ast = None""",
         new="""        self._opcodes[index] = item"""),
    dict(prop="C14", name="properties-cache-before-visit(revert FX12)", file="fickling/fickle.py",
         old="""            properties = ASTProperties()
            properties.visit(self.ast)
            self._properties = properties""",
         new="""            self._properties = ASTProperties()
            self._properties.visit(self.ast)"""),
    # ---- C09
    dict(prop="C09", name="additems-pops-set(revert FX2)", file="fickling/fickle.py",
         old="        pyset = interpreter.stack[-1]\n", new="        pyset = interpreter.stack.pop()\n"),
    dict(prop="C09", name="pop-pops-twice-on-mark", file="fickling/fickle.py",
         old="""    def run(self, interpreter: Interpreter):
        interpreter.stack.pop()


class PopMark""",
         new="""    def run(self, interpreter: Interpreter):
        if isinstance(interpreter.stack.pop(), MarkObject) and len(interpreter.stack):
            interpreter.stack.pop()


class PopMark"""),
    dict(prop="C09", name="memoize-uses-stack-len", file="fickling/fickle.py",
         old="        interpreter.memory[len(interpreter.memory)] = interpreter.stack[-1]",
         new="        interpreter.memory[len(interpreter.stack) - 1] = interpreter.stack[-1]"),
    dict(prop="C09", name="trace-steps-twice-after-mark", file="fickling/tracing.py",
         old="""            self.on_opcode(opcode)
""",
         new="""            self.on_opcode(opcode)
            if opcode.name == "LONG_BINPUT":
                self.on_opcode(opcode)
"""),
    dict(prop="C09", name="tuple3-pops-two", file="fickling/fickle.py",
         old="""        top = interpreter.stack.pop()
        mid = interpreter.stack.pop()
        bot = interpreter.stack.pop()
        interpreter.stack.append(ast.Tuple((bot, mid, top), ast.Load()))""",
         new="""        top = interpreter.stack.pop()
        mid = interpreter.stack.pop()
        interpreter.stack.append(ast.Tuple((mid, mid, top), ast.Load()))"""),
    # ---- C03
    dict(prop="C03", name="newobj-unbound(revert FX1 for NEWOBJ)", file="fickling/fickle.py",
         old="""            call = ast.Call(class_type, [ast.Starred(args)], [])
        var_name = interpreter.new_variable(call)
        interpreter.stack.append(ast.Name(var_name, ast.Load()))


class NewObjEx""",
         new="""            call = ast.Call(class_type, [ast.Starred(args)], [])
        interpreter.stack.append(call)


class NewObjEx"""),
    dict(prop="C03", name="stack_global-no-import", file="fickling/fickle.py",
         old="""                alias = ast.alias(imported_name)
            interpreter.module_body.append(ast.ImportFrom(module=module, names=[alias], level=0))
        interpreter.stack.append(reference)


class Inst""",
         new="""                alias = ast.alias(imported_name)
            if module != "subprocess":
                interpreter.module_body.append(
                    ast.ImportFrom(module=module, names=[alias], level=0)
                )
        interpreter.stack.append(reference)


class Inst"""),
    dict(prop="C03", name="inst-pushes-bare-call", file="fickling/fickle.py",
         old="""        call = ast.Call(reference, list(args.elts), [])
        var_name = interpreter.new_variable(call)
        interpreter.stack.append(ast.Name(var_name, ast.Load()))""",
         new="""        call = ast.Call(reference, list(args.elts), [])
        interpreter.stack.append(call)"""),
    dict(prop="C03", name="build-setstate-dropped-for-empty-state", file="fickling/fickle.py",
         old="""            obj_name = interpreter.new_variable(obj)
        interpreter.module_body.append(""",
         new="""            obj_name = interpreter.new_variable(obj)
        if isinstance(argument, ast.Tuple) and not argument.elts:
            interpreter.stack.append(ast.Name(obj_name, ast.Load()))
            return
        interpreter.module_body.append("""),
    # ---- C05
    dict(prop="C05", name="list-reversed", file="fickling/fickle.py",
         old="        interpreter.stack.append(ast.List(elts=objs[::-1], ctx=ast.Load()))",
         new="        interpreter.stack.append(ast.List(elts=objs, ctx=ast.Load()))"),
    dict(prop="C05", name="tuple3-misordered", file="fickling/fickle.py",
         old="ast.Tuple((bot, mid, top), ast.Load())", new="ast.Tuple((bot, top, mid), ast.Load())"),
    dict(prop="C05", name="setitem-rebinds(revert FX5)", file="fickling/fickle.py",
         old="""            pydict.keys.append(key)
            pydict.values.append(value)
            interpreter.stack.append(pydict)""",
         new="""            interpreter.stack.append(ast.Dict(keys=pydict.keys + [key], values=pydict.values + [value]))"""),
    dict(prop="C05", name="binget-copies-node", file="fickling/fickle.py",
         old="""class BinGet(Opcode):
    name = "BINGET"

    def run(self, interpreter: Interpreter):
        interpreter.stack.append(interpreter.memory[self.arg])""",
         new="""class BinGet(Opcode):
    name = "BINGET"

    def run(self, interpreter: Interpreter):
        import copy

        interpreter.stack.append(copy.deepcopy(interpreter.memory[self.arg]))"""),
    dict(prop="C05", name="long1-negative-off", file="fickling/fickle.py",
         old="        interpreter.stack.append(make_constant(self.arg))",
         new="""        arg = self.arg
        if self.name == "LONG1" and isinstance(arg, int) and arg < -(2**40):
            arg = -arg
        interpreter.stack.append(make_constant(arg))"""),
    # ---- C13
    dict(prop="C13", name="dict-iterators(revert FX4)", file="fickling/fickle.py",
         old="ast.Dict(keys=keys[::-1], values=values[::-1])",
         new="ast.Dict(keys=reversed(keys), values=reversed(values))"),
    dict(prop="C13", name="unused-vars-second-call-empty", file="fickling/analysis.py",
         old="""        interpreter = Interpreter(context.pickled)
        for varname, asmt in interpreter.unused_assignments().items():""",
         new="""        if getattr(context.pickled, "_uv_done", False):
            return
        context.pickled._uv_done = True
        interpreter = Interpreter(context.pickled)
        for varname, asmt in interpreter.unused_assignments().items():"""),
    dict(prop="C13", name="hash-order-leaks-into-source", file="fickling/fickle.py",
         old="""    def run(self, interpreter: Interpreter):
        interpreter.stack.append(ast.Set([]))""",
         new="""    def run(self, interpreter: Interpreter):
        interpreter.stack.append(ast.Set([]))
        first = next(iter({"alpha", "beta", "gamma", "delta", "epsilon", "zeta"}))
        interpreter.module_body.append(ast.Expr(ast.Constant(first)))"""),
    # ---- C04
    dict(prop="C04", name="badcalls-marks-reported(revert FX7)", file="fickling/analysis.py",
         old="shortened, _ = context.shorten_code(node, mark_reported=False)",
         new="shortened, _ = context.shorten_code(node)"),
    dict(prop="C04", name="shutil-not-unsafe", file="fickling/analysis.py",
         old="""        "shutil": "This module contains functions that can perform system operations and execute arbitrary code.",
""", new=""),
    dict(prop="C04", name="submodule-walk-split", file="fickling/analysis.py",
         old="""module.rsplit(".", i)[0] for i in range(0, module.count(".") + 1)""",
         new="""module.split(".", i)[-1] for i in range(0, module.count(".") + 1)"""),
    dict(prop="C04", name="std-module-dotted-true", file="fickling/fickle.py",
         old="    return in_stdlib(module_name) or module_name in BUILTIN_MODULE_NAMES",
         new="    return in_stdlib(module_name) or module_name in BUILTIN_MODULE_NAMES or module_name.count('.') >= 2"),
    dict(prop="C04", name="compile-not-overtly-bad(two sites)", edits=[
        ("fickling/analysis.py", """    BAD_CALLS = ["exec", "eval", "compile", "open"]""",
         """    BAD_CALLS = ["exec", "eval", "open"]"""),
        ("fickling/analysis.py", """                or shortened.startswith("compile(")
""", ""),
    ]),
    dict(prop="C04", name="build-alias(revert FX11)", file="fickling/fickle.py",
         old="""        if isinstance(obj, ast.Name):
            # already a variable or an imported name: do not hide it behind an alias, or a later
            # call through the alias (`_var0 = eval; _var0(...)`) is invisible to the analyses
            obj_name = obj.id
        else:
            obj_name = interpreter.new_variable(obj)""",
         new="""        obj_name = interpreter.new_variable(obj)"""),
    # ---- C19
    dict(prop="C19", name="yield-node(revert FX6)", file="fickling/analysis.py",
         old="""                yield AnalysisResult(
                    Severity.LIKELY_OVERTLY_MALICIOUS,
                    f"`{shortened}` imports `eval` which is indicative of a malicious pickle file",
                    "UnsafeImportsML",
                    trigger=shortened,
                )""",
         new="""                yield node"""),
    dict(prop="C19", name="trigger-holds-ast-node", file="fickling/analysis.py",
         old="""                    "NonStandardImports",
                    trigger=shortened,""",
         new="""                    "NonStandardImports",
                    trigger=node,"""),
    dict(prop="C19", name="shorten-code-index-error", file="fickling/analysis.py",
         old="""            cutoff = code.find("(")
            if code[cutoff] == "(":""",
         new="""            cutoff = code.find("(")
            if code[cutoff + 40] == "(":"""),
    dict(prop="C19", name="message-none-for-operator", file="fickling/analysis.py",
         old="""                            f"`{shortened}` imports `{n.name}` that is indicative of a malicious pickle file. {risk_info}",""",
         new="""                            None if n.name == "itemgetter" else f"`{shortened}` imports `{n.name}` that is indicative of a malicious pickle file. {risk_info}","""),
]

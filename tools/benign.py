#!/venv/bin/python
"""Soundness experiment: apply a behaviour-preserving refactor (written by an independent
sub-agent that was given all property statements) to a scratch worktree and run EVERY check's
quick tier against it.  Expected: the repository suite is unchanged and all checks exit 0.

usage: tools/benign.py <name> <dir-with-patch.diff,notes.md>
"""
import json
import os
import shutil
import subprocess
import sys

sys.path.insert(0, os.path.dirname(os.path.abspath(__file__)))
import seeded as S  # noqa: E402

ROOT = S.ROOT


def main():
    name, src = sys.argv[1], sys.argv[2]
    dst = os.path.join(ROOT, "benign", name)
    os.makedirs(dst, exist_ok=True)
    for f in ("patch.diff", "notes.md"):
        if os.path.exists(os.path.join(src, f)) and os.path.abspath(src) != os.path.abspath(dst):
            shutil.copy(os.path.join(src, f), os.path.join(dst, f))
    meta = {"name": name, "base_commit": S.sh("git", "-C", "/repo", "rev-parse", "HEAD").stdout.strip()}
    S.fresh_wt()
    try:
        r = S.sh("git", "-C", S.WT, "apply", "--whitespace=nowarn", os.path.join(dst, "patch.diff"))
        if r.returncode != 0:
            r = S.sh("git", "-C", S.WT, "apply", "-3", "--whitespace=nowarn", os.path.join(dst, "patch.diff"))
        meta["applies"] = r.returncode == 0
        if meta["applies"]:
            meta["diffstat"] = S.sh("git", "-C", S.WT, "diff", "--stat").stdout.strip().splitlines()[-1:]
            meta["suite"] = S.run_suite(S.WT)
            man = json.load(open(os.path.join(ROOT, "MANIFEST.json")))
            checks = {}
            for c in man["checks"]:
                pid = c["property_id"]
                checks[pid] = S.run_check(pid, S.WT, "quick")
                print(pid, checks[pid]["exit"], checks[pid]["wall_s"], (checks[pid]["first_lines"] or [""])[:2], flush=True)
            meta["checks"] = checks
            meta["alarms"] = sorted(k for k, v in checks.items() if v["exit"] != 0)
    finally:
        S.drop_wt()
    json.dump(meta, open(os.path.join(dst, "meta.json"), "w"), indent=1)
    print(json.dumps({k: meta.get(k) for k in ("name", "applies", "alarms")}), meta.get("suite", {}).get("summary"))
    return 0


if __name__ == "__main__":
    sys.exit(main())

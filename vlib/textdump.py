"""Pickled.dump() handed a TEXT stream: either refused, or what lands in the file is the pickle.

A text stream encodes what it is given (UTF-8 by default, newline translation): an
implementation that accepts one must still deliver exactly dumps()."""
import os


def text_dump_problem(p, directory, tag=""):
    """None, or a message.  `p` is a Pickled (not modified)."""
    want = p.dumps()
    for kw in ({"encoding": "utf-8"}, {"encoding": "latin-1"}, {"encoding": "utf-8", "newline": ""}):
        path = os.path.join(directory, f"textdump{tag}.{os.getpid()}.pkl")
        try:
            try:
                with open(path, "w", **kw) as f:
                    p.dump(f)
            except Exception:  # noqa: BLE001 - refusing a text stream is fine
                continue
            with open(path, "rb") as f:
                got = f.read()
            if got != want:
                return (f"dump() accepted a text stream ({kw}) but the file holds {len(got)} bytes "
                        f"{got[:40]!r}... where dumps() gives {len(want)} bytes {want[:40]!r}...")
        finally:
            if os.path.exists(path):
                os.remove(path)
    return None

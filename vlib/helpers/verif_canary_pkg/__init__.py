"""Canary *package*: importing it (e.g. as a side effect of locating a submodule) leaves a
marker file. The harness never imports it; only pickles under analysis name it."""
import os as _os

try:
    with open(_os.path.join(_os.getcwd(), "VERIF_CANARY_PKG_IMPORTED"), "a") as _f:
        _f.write("x")
except OSError:
    pass

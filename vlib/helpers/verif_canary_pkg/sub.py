def thing(*a, **k):
    return None

"""Importable, harmless classes used to produce natural pickles of instances.

Every way pickle encodes an instance is represented: dict state (BUILD), slots
state (BUILD with a 2-tuple), __reduce__ returning (callable, args[, state[,
listitems[, dictitems]]]), __getnewargs__ (NEWOBJ), __getnewargs_ex__
(NEWOBJ_EX), __setstate__.
"""


class Plain:
    def __init__(self, **kw):
        self.__dict__.update(kw)

    def __eq__(self, o):
        return type(o) is type(self) and o.__dict__ == self.__dict__

    def __hash__(self):
        return hash(type(self).__name__)

    def __repr__(self):
        return f"{type(self).__name__}({self.__dict__!r})"


class Slotted:
    __slots__ = ("a", "b")

    def __init__(self, a=None, b=None):
        self.a = a
        self.b = b

    def _key(self):
        # slots may be unset when the instance was created without __init__ (INST / NEWOBJ)
        return (getattr(self, "a", "<unset>"), getattr(self, "b", "<unset>"))

    def __eq__(self, o):
        return type(o) is type(self) and o._key() == self._key()

    def __hash__(self):
        return 7

    def __repr__(self):
        return f"Slotted{self._key()!r}"


def make(*args):
    p = Plain()
    p.args = args
    return p


class Reducer:
    """__reduce__ -> (make, args, state, listitems, dictitems)"""

    def __init__(self, args=(), state=None):
        self.args = tuple(args)
        self.state = state

    def __reduce__(self):
        if self.state is None:
            return (make, self.args)
        return (make, self.args, self.state)

    def __eq__(self, o):
        return type(o) is type(self) and (o.args, o.state) == (self.args, self.state)

    def __hash__(self):
        return 11


class NewArgs(tuple):
    """tuple subclass: NEWOBJ with args, plus dict state"""

    def __new__(cls, *items):
        return super().__new__(cls, items)

    def __getnewargs__(self):
        return tuple(self)


class NewArgsEx:
    def __new__(cls, *a, **k):
        o = super().__new__(cls)
        o.a = a
        o.k = k
        return o

    def __getnewargs_ex__(self):
        return (self.a, self.k)

    def __eq__(self, o):
        return type(o) is type(self) and (o.a, o.k) == (self.a, self.k)

    def __hash__(self):
        return 13


class WithSetstate:
    def __init__(self, v=None):
        self.v = v

    def __getstate__(self):
        return ("state", self.v)

    def __setstate__(self, s):
        self.v = s[1]

    def __eq__(self, o):
        return type(o) is type(self) and o.v == self.v

    def __hash__(self):
        return 17


class ListLike(list):
    """list subclass: reduce with listitems -> APPENDS on a non-literal"""


class DictLike(dict):
    """dict subclass: reduce with dictitems -> SETITEMS on a non-literal"""


class Outer:
    """nested class: pickled by qualified name (Outer.Inner) at protocol >= 4"""

    class Inner:
        def __init__(self, v=None):
            self.v = v

        def __eq__(self, o):
            return type(o) is type(self) and o.__dict__ == self.__dict__

        def __hash__(self):
            return 19

        def __repr__(self):
            return f"Outer.Inner({self.__dict__!r})"


# ---- subclasses of the constant types (C15: "an equal value of the same kind")
import enum as _enum


class Colour(str, _enum.Enum):
    RED = "red"
    GREEN = "grün"


class Sig(_enum.IntEnum):
    INT = 2
    BIG = 2**40


class LoudStr(str):
    def __str__(self):
        return "LOUD:" + str.__str__(self).upper()

    def __repr__(self):
        return "LoudStr(...)"


class MyInt(int):
    def __repr__(self):
        return "MyInt(?)"

    def __str__(self):
        return "not-a-number"


class MyBytes(bytes):
    def __repr__(self):
        return "MyBytes(?)"


class MyFloat(float):
    def __repr__(self):
        return "MyFloat(?)"


SUBCLASS_VALUES = (Colour.RED, Colour.GREEN, Sig.INT, Sig.BIG, LoudStr("quiet"), MyInt(7), MyInt(2**70), MyBytes(b"raw"),
                   MyFloat(1.5))  # fmt: skip

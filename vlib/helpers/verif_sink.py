"""Harmless sink: records how it was called and returns a pure function of its arguments."""
LOG = []


def sink(*args, **kwargs):
    LOG.append((args, kwargs))
    return ("sunk", args, tuple(sorted(kwargs.items())))


def reset():
    del LOG[:]


class Effect:
    """Object whose unpickling calls sink(tag) (observable order of base effects)."""

    def __init__(self, tag):
        self.tag = tag

    def __reduce__(self):
        return (sink, (self.tag,))

    def __eq__(self, other):
        return isinstance(other, Effect) and other.tag == self.tag

    def __hash__(self):
        return hash(("Effect", self.tag))


# non-ASCII alias: the stock unpickler decodes GLOBAL names as UTF-8, pickletools as ASCII
globals()["s\u00ednk"] = sink

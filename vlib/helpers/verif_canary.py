"""Canary: leaves a marker file when imported or when anything in it is called.
The harness never imports this module itself; only a pickle under analysis names it."""
import os as _os


def _mark(what):
    try:
        with open(_os.path.join(_os.getcwd(), "VERIF_CANARY_" + what), "a") as f:
            f.write("x")
    except OSError:
        pass


_mark("IMPORTED")


def fire(*a, **k):
    _mark("CALLED")
    return None


class Boom:
    def __init__(self, *a, **k):
        _mark("CALLED")

    def __setstate__(self, s):
        _mark("CALLED")

"""Decode raw pickle bytes into the assembler's instruction form and decide whether the
program lies inside the typed domain (i.e. the typed assembler *could* have produced it with
the exclusion flags on).  Used by the byte-level fuzz targets so that raw-byte search stays
inside the same domain as the structured generators (open known findings excluded by
construction, never by matching failures)."""
import pickletools

from . import asm

_SAME = set(asm.SIMPLE) | {
    "BININT1", "BININT2", "BININT", "LONG1", "LONG4", "BINFLOAT", "SHORT_BINUNICODE", "BINUNICODE",
    "BINUNICODE8", "UNICODE", "SHORT_BINBYTES", "BINBYTES", "BINBYTES8", "BYTEARRAY8", "BINPUT",
    "LONG_BINPUT", "PUT", "BINGET", "LONG_BINGET", "GET", "PERSID", "FLOAT", "LONG",
    "SHORT_BINSTRING", "BINSTRING", "STRING",
}  # fmt: skip


def to_instrs(data):
    """(instrs, end offset) for the first pickle in data, or None when it is not a complete
    pickle or uses an opcode outside the assembler's vocabulary (EXT*, buffers, FRAME/PROTO are
    dropped: they do not affect the abstract state)."""
    out = []
    try:
        for op, arg, pos in pickletools.genops(data):
            n = op.name
            if n in ("PROTO", "FRAME"):
                continue
            if n == "STOP":
                out.append(("STOP", None))
                return out, pos + 1
            if n == "INT":
                out.append(("INTBOOL", arg) if isinstance(arg, bool) else ("INT", arg))
            elif n in ("NEWTRUE", "NEWFALSE"):
                out.append(("NEWBOOL", n == "NEWTRUE"))
            elif n in ("GLOBAL", "INST"):
                m, _, name = arg.partition(" ")
                out.append((n, (m, name)))
            elif n in _SAME:
                out.append((n, arg if n not in asm.SIMPLE else None))
            else:
                return None
    except Exception:  # noqa: BLE001
        return None
    return None


class _AnyParams(asm.State):
    """typed state that accepts any argument value (only the *typing* is checked)"""

    def params(self, op):
        if op in ("GET", "BINGET", "LONG_BINGET"):
            return sorted(self.memo)
        return [None]


_PERMISSIVE = asm.Profile(ops=asm.FULL_OPS, globs=(), all_encodings=True)


def in_typed_domain(data):
    """True iff the first pickle of `data` is a program the typed assembler could emit with
    unique_attr_names / no_mutation_after_capture / acyclic on."""
    dec = to_instrs(data)
    if dec is None:
        return False
    instrs, _end = dec
    s = _AnyParams(_PERMISSIVE)
    for op, arg in instrs:
        if op != "STOP" and op not in _PERMISSIVE.ops:
            return False
        if op in ("GLOBAL", "INST"):
            if not (asm._valid_modname(arg[0]) and asm._valid_modname(arg[1])):
                return False
            if not s._name_ok(arg[0], arg[1]):
                return False
        if op in ("GET", "BINGET", "LONG_BINGET"):
            if arg not in s.memo:
                return False
        elif op in ("GLOBAL", "INST"):
            t = s.tsm()
            if op == "INST" and t is None:
                return False
        else:
            try:
                if not s._legal(op, s.tsm()):
                    return False
            except ValueError:
                return False
        try:
            s.apply((op, arg))
        except Exception:  # noqa: BLE001
            return False
        if op == "STOP":
            return True
    return False

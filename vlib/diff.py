"""Differential core: fickling's decompile vs the reference VM on the same bytes."""
import ast
from collections import Counter

from .refvm import BUILTIN_FAMILY, Cyclic, canon_i, canon_s, run_ref
from .stubexec import run_source


FROZENSET_GLOB = ("glob", "builtins", "frozenset")
BYTEARRAY_GLOB = ("glob", "builtins", "bytearray")  # BYTEARRAY8 has no literal form either


class Decompiled:
    __slots__ = ("status", "src", "pickled", "error", "phase", "variants")


def _variants(data, src):
    """the decompile as other public paths deliver it: [(label, source)] where it differs from
    the plain one (which is itself a matter for C13; here the differing text is judged as a
    decompile in its own right)"""
    import contextlib
    import io

    from fickling.analysis import check_safety
    from fickling.fickle import Interpreter, Pickled
    from fickling.tracing import Trace

    out = []
    try:
        p = Pickled.load(data)
        p.has_import, p.has_call
        check_safety(p)
        list(p.unsafe_imports()), list(p.non_standard_imports())
        s2 = ast.unparse(p.ast)
        if s2 != src:
            out.append(("read from an object that has been analysed first (has_import, check_safety)", s2))
    except Exception:  # noqa: BLE001
        pass
    try:
        # the opcodes slice-assigned into an object that was decompiled as something else before
        q = Pickled.load(b"N.")
        q.ast
        q[:] = list(Pickled.load(data))
        s4 = ast.unparse(q.ast)
        if s4 != src:
            out.append(("of an object these opcodes were slice-assigned into after it had been decompiled", s4))
    except Exception:  # noqa: BLE001
        pass
    try:
        with contextlib.redirect_stdout(io.StringIO()):
            s3 = ast.unparse(Trace(Interpreter(Pickled.load(data))).run())
        if s3 != src:
            out.append(("returned by Trace.run()", s3))
    except Exception:  # noqa: BLE001
        pass
    return out


def decompile(data, variants=False):
    """Parse + symbolic-execute + unparse with fickling.  status is 'ok' or
    'refused' (any exception: the property allows refusing with an error)."""
    from fickling.fickle import Pickled

    d = Decompiled()
    d.variants = []
    d.src = None
    d.pickled = None
    d.error = None
    d.phase = None
    try:
        d.phase = "parse"
        p = Pickled.load(data)
        d.pickled = p
        d.phase = "interpret"
        tree = p.ast
        d.phase = "unparse"
        d.src = ast.unparse(tree)
        d.status = "ok"
        if variants and ("import" in d.src or "_var" in d.src):
            d.variants = _variants(data, d.src)
    except RecursionError as e:
        d.status = "refused"
        d.error = e
    except Exception as e:  # noqa: BLE001
        d.status = "refused"
        d.error = e
        if d.phase in ("interpret", "unparse") and d.pickled is not None:
            # a refusal must stay a refusal: asking the same object again (as a caller that
            # caught the first error might) must not yield a program with the operation left out
            for _ in range(2):
                try:
                    d.src = ast.unparse(d.pickled.ast)
                    d.status = "ok"
                    d.phase = "retry-after-refusal"
                    break
                except Exception:  # noqa: BLE001
                    continue
    return d


def _is_builtin_import(ev):
    return ev[0] == "import" and ev[1] in BUILTIN_FAMILY


def vm_events(ref):
    """(imports Counter, calls Counter) the VM performed; builtins-family imports
    are exempt (fickling documents that it emits none; importing builtins cannot
    run code)."""
    imps = Counter(e for e in ref.log.events if e[0] == "import" and not _is_builtin_import(e))
    calls = Counter(e for e in ref.log.events if e[0] == "call")
    return imps, calls


def src_events(ex):
    imps = Counter(e for e in ex.log.events if e[0] == "import" and not _is_builtin_import(e))
    calls = Counter(e for e in ex.log.events if e[0] == "call")
    return imps, calls


def missing(vm_counter, src_counter):
    """events the VM performs more often than the decompile does"""
    out = []
    for ev, n in vm_counter.items():
        if src_counter.get(ev, 0) < n:
            out.append((ev, n, src_counter.get(ev, 0)))
    return out


class Outcome:
    """Everything the C03/C05 oracles need about one program."""

    __slots__ = ("ref", "dec", "ex", "kind", "detail", "alts", "via")


def examine(data, result_name="result"):
    """kind in:
    'ref-reject'  reference VM rejects the bytes (out of domain)
    'cyclic'      value is cyclic (out of domain)
    'refused'     fickling refuses (allowed)
    'not-runnable' decompile produced text that does not compile / raises at exec
    'ran'         both sides ran; compare with the helpers below
    """
    o = Outcome()
    o.dec = None
    o.ex = None
    o.detail = None
    o.alts = []
    o.via = None
    # the reference resolves globals as the real unpickler does: Python-2 spellings are renamed
    # below protocol 3 (fix_imports).  The decompile may show either spelling there (the literal
    # one, or the module really imported): the stub executor applies the same renaming, so both
    # denote the same global.  From protocol 3 on nothing is renamed on either side.
    o.ref = run_ref(data, fix_imports=True)
    if not o.ref.ok or (o.ref.fc_low and o.ref.fc_high):
        o.kind = "ref-reject"  # (a PROTO change between two globals: renaming is per opcode)
        return o
    low = o.ref.fc_high == 0
    try:
        canon_i(o.ref.value)
    except Cyclic:
        o.kind = "cyclic"
        return o
    except RecursionError:
        o.kind = "ref-reject"
        return o
    o.dec = decompile(data, variants=True)
    if o.dec.status != "ok":
        o.kind = "refused"
        return o
    o.ex = run_source(o.dec.src, map_py2=low)
    if not o.ex.ok:
        if o.ex.phase == "recursion":
            o.kind = "ref-reject"
            return o
        o.kind = "not-runnable"
        o.detail = f"{o.ex.phase}: {type(o.ex.error).__name__}: {o.ex.error}"
        return o
    if result_name not in o.ex.env:
        o.kind = "not-runnable"
        o.detail = f"decompiled program does not bind {result_name!r}"
        return o
    o.kind = "ran"
    for label, src in o.dec.variants:
        ex = run_source(src, map_py2=low)
        if not ex.ok or result_name not in ex.env:
            if ex.ok or ex.phase != "recursion":
                o.kind = "not-runnable"
                o.via = label
                o.detail = f"the decompile {label} does not run: {getattr(ex, 'error', None)!r}"
                o.dec.src = src
                return o
            continue
        o.alts.append((label, src, ex))
    return o


def hidden_execution(o):
    """C03 oracle: list of (event, vm_count, decompile_count) the decompile lacks."""
    lack = _hidden(o, o.ex)
    if lack:
        return lack
    for label, src, ex in o.alts:
        lack = _hidden(o, ex)
        if lack:
            o.via, o.dec.src = label, src
            return lack
    return []


def _hidden(o, ex):
    vi, vc = vm_events(o.ref)
    si, sc = src_events(ex)
    # imports are compared as sets ("is present"): importing a name is idempotent and a decompile
    # may legitimately show one import statement for a global the VM resolves twice; "at least as
    # many times" is stated for invocations only (a dropped import that matters changes a callee,
    # which the call comparison sees)
    vi = Counter(dict.fromkeys(vi, 1))
    return missing(vi, si) + missing(vc, sc)


def value_mismatch(o, result_name="result"):
    """C05 oracle: None when equal, else a description."""
    mm = _value_mismatch(o, o.ex, result_name)
    if mm is not None:
        return mm
    for label, src, ex in o.alts:
        mm = _value_mismatch(o, ex, result_name)
        if mm is not None:
            o.via, o.dec.src = label, src
            mm["via"] = label
            return mm
    return None


def _value_mismatch(o, ex, result_name):
    try:
        want = canon_i(o.ref.value)
        got = canon_i(ex.env[result_name])
    except Cyclic:
        return None
    if want != got:
        return {"kind": "value", "vm": _short(want), "decompile": _short(got)}
    _, vc = vm_events(o.ref)
    _, sc = src_events(ex)
    # frozenset has no literal: the FROZENSET opcode is data construction on the VM
    # side but necessarily a `frozenset(...)` expression in source, so calls of the
    # frozenset constructor are not counted in the equality (the value comparison
    # above still sees every frozenset).
    vc = Counter({e: n for e, n in vc.items() if e[1] not in (FROZENSET_GLOB, BYTEARRAY_GLOB)})
    sc = Counter({e: n for e, n in sc.items() if e[1] not in (FROZENSET_GLOB, BYTEARRAY_GLOB)})
    if vc != sc:
        extra = missing(sc, vc)
        lack = missing(vc, sc)
        return {"kind": "calls", "missing": _short(lack), "extra": _short(extra)}
    return None


def _short(x, n=600):
    s = repr(x)
    return s if len(s) <= n else s[:n] + "..."

"""Environment bootstrap shared by every check.

* puts /verif/.deps (offline-installed hypothesis / atheris, if /venv lacks them)
  and the repository under test (VERIF_REPO, default /repo) at the front of
  sys.path, so a scratch copy can be substituted for mutation testing;
* never writes byte-code into the repository;
* exposes the seed and a few paths.
"""
import os
import sys

VERIF_ROOT = os.path.dirname(os.path.dirname(os.path.abspath(__file__)))
REPO = os.path.abspath(os.environ.get("VERIF_REPO", "/repo"))
DEPS = os.path.join(VERIF_ROOT, ".deps")
SCRATCH = os.path.join(VERIF_ROOT, ".scratch")
OUT = os.path.join(VERIF_ROOT, "out")
REPLAYS = os.path.join(OUT, "replays")
EVIDENCE = os.path.join(VERIF_ROOT, "evidence")
REGRESS = os.path.join(VERIF_ROOT, "regress")
HELPERS = os.path.join(VERIF_ROOT, "vlib", "helpers")  # importable sink/canary modules

import _pickle  # noqa: E402
import pickle  # noqa: E402

# the four bindings as CPython ships them, captured before fickling is ever imported
PICKLE_ORIG = (pickle.load, pickle.loads, _pickle.load, _pickle.loads)

sys.dont_write_bytecode = True
os.environ.setdefault("PYTHONDONTWRITEBYTECODE", "1")


def bootstrap():
    for p in (HELPERS, DEPS, REPO):
        if p in sys.path:
            sys.path.remove(p)
    # REPO first so that `import fickling` resolves to the tree under test even
    # when an editable install of another copy exists.
    sys.path.insert(0, REPO)
    if os.path.isdir(DEPS):
        sys.path.insert(1, DEPS)
    sys.path.insert(1, HELPERS)
    for d in (SCRATCH, OUT, REPLAYS, EVIDENCE):
        os.makedirs(d, exist_ok=True)


def seed() -> int:
    try:
        return int(os.environ.get("VERIF_SEED", "1"))
    except ValueError:
        return 1


def check_repo_is_the_one_imported():
    import fickling

    got = os.path.dirname(os.path.dirname(os.path.abspath(fickling.__file__)))
    if os.path.realpath(got) != os.path.realpath(REPO):
        raise RuntimeError(f"fickling imported from {got}, expected {REPO}")


bootstrap()

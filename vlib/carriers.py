"""The same pickle bytes handed over in different carriers.

Whatever object the bytes arrive in - a stream positioned on them in the middle of a larger
buffer / file / mapping, a memoryview window, a bytearray, a text-mode handle, a stream opened from
a file descriptor - the library either refuses the carrier or works on exactly these bytes."""
import io
import mmap
import os
import pickle

HEAD = pickle.dumps(["header record", 1, 2, 3], protocol=2)


def carriers(data, directory, head=HEAD):
    """yields (label, make) where make() returns (object, closer)"""
    path = os.path.join(directory, f"carrier.{os.getpid()}.bin")
    plain = os.path.join(directory, f"carrier-plain.{os.getpid()}.bin")
    with open(path, "wb") as f:
        f.write(head + data)
    with open(plain, "wb") as f:
        f.write(data)
    k = len(head)

    def bytesio_at():
        b = io.BytesIO(head + data)
        b.seek(k)
        return b, None

    def file_at():
        f = open(path, "rb")
        f.seek(k)
        return f, f

    def mmap_at():
        f = open(path, "rb")
        m = mmap.mmap(f.fileno(), 0, access=mmap.ACCESS_READ)
        m.seek(k)

        class Both:
            def close(self):
                m.close()
                f.close()

        return m, Both()

    def fd_named():
        f = os.fdopen(os.open(plain, os.O_RDONLY), "rb")
        return f, f

    def text_handle():
        f = open(plain, "r", encoding="latin-1")
        return f, f

    yield "BytesIO positioned behind a header record", bytesio_at
    yield "file positioned behind a header record", file_at
    yield "mmap positioned behind a header record", mmap_at
    yield "memoryview window [k:] of a larger bytes object", lambda: (memoryview(head + data)[k:], None)
    yield "memoryview window [k:] of a larger bytearray", lambda: (memoryview(bytearray(head + data))[k:], None)
    yield "memoryview of the bytes", lambda: (memoryview(data), None)
    yield "bytearray", lambda: (bytearray(data), None)
    yield "stream opened from a file descriptor", fd_named
    yield "text-mode file handle", text_handle


def cleanup(directory):
    for name in (f"carrier.{os.getpid()}.bin", f"carrier-plain.{os.getpid()}.bin"):
        p = os.path.join(directory, name)
        if os.path.exists(p):
            os.remove(p)


def parse_problem(data, directory, stacked=False):
    """None or message: Pickled.load / StackedPickle.load through every carrier gives the opcodes
    (re-serialised bytes) it gives for the bytes themselves, or refuses the carrier."""
    from fickling.fickle import Pickled, StackedPickle

    def parse(obj):
        if stacked:
            return [p.dumps() for p in StackedPickle.load(obj)]
        return Pickled.load(obj).dumps()

    try:
        want = parse(data)
    except Exception:  # noqa: BLE001 - not parseable at all: nothing to compare
        return None
    try:
        for label, make in carriers(data, directory):
            obj, closer = make()
            try:
                try:
                    got = parse(obj)
                except Exception:  # noqa: BLE001 - refusing a carrier is fine
                    continue
            finally:
                if closer is not None:
                    closer.close()
            if got != want:
                what = "StackedPickle.load" if stacked else "Pickled.load"
                return (f"{what} through a {label} parsed {_s(got)} where the same bytes parse as {_s(want)}")
    finally:
        cleanup(directory)
    return None


def _s(x):
    r = repr(x)
    return r if len(r) < 160 else r[:160] + "..."


# inputs for the carrier shards: bytes that a text layer would alter (CR, CRLF, 0x80-0xff), stacks,
# flagged and harmless programs
INPUTS = (
    b"\x80\x02]q\r(K\rK\nK\x0de.", b"(lp13\nI1\naI2\na.", b"\x80\x04\x95\x0d\x00\x00\x00\x00\x00\x00\x00\x8c\x02\r\n\x94\x8c\x01\r\x94\x86\x94.",
    b"cos\ngetpid\n)R.", b"N.", b"\x80\x02}q\x00(X\x01\x00\x00\x00aK\x01X\x02\x00\x00\x00\xc3\xa9K\x02u.",
    pickle.dumps({"a": [1, 2.5, "x\r\ny", b"\r\xff"], "b": (None, True)}, 2),
    pickle.dumps({"a": [1, 2.5, "x\r\ny", b"\r\xff"], "b": (None, True)}, 4),
    pickle.dumps(list(range(20)), 0), b"cbuiltins\neval\n(S'1+1'\ntR.", b"ccollections\nOrderedDict\n)R.",
    b"K\x01.K\x02.K\r.", b"N.cos\ngetpid\n)R.", b"cos\ngetpid\n)R.N.",
)


def _scratch(tag):
    from vlib import env

    d = os.path.join(env.SCRATCH, f"{tag}-carriers-{os.getpid()}")
    os.makedirs(d, exist_ok=True)
    return d


def run_shard(res, tag):
    """the carrier shard shared by the checks whose subject is what Pickled.load makes of an input"""
    import shutil

    from vlib.runner import Failure

    d = _scratch(tag)
    try:
        for data in INPUTS:
            for stacked in (False, True):
                msg = parse_problem(data, d, stacked)
                res.note((data.hex(), stacked), True, klass="carriers", sample={"carriers": data.hex(), "stacked": stacked})
                if msg:
                    res.failures.append(Failure({"carriers": data.hex(), "stacked": stacked}, msg))
                    return res
    finally:
        shutil.rmtree(d, ignore_errors=True)
    return res


def replay(case, tag):
    import shutil

    from vlib.runner import Failure

    d = _scratch(tag)
    try:
        msg = parse_problem(bytes.fromhex(case["carriers"]), d, case.get("stacked", False))
    finally:
        shutil.rmtree(d, ignore_errors=True)
    return Failure(case, msg) if msg else None

"""Execute a decompiled program against the same inert stubs as the reference VM.

The source produced by fickling is compiled and exec'd with
  * `__builtins__` = {`__import__`: a logging importer that returns objects whose
    attributes are inert glob stubs} and nothing else,
  * a locals mapping whose `__missing__` hands out `builtins.<name>` glob stubs
    for every free name that is not one of fickling's own variables (fickling
    emits bare names for builtins and no import statement for them),
  * `UNPICKLER` as a stub.
Nothing named by the program is imported or called for real.
"""
import re

from .refvm import Log, Stub, make_glob

_OWN = re.compile(r"^(_var\d+|result\d*)$")


class _Mod:
    pass


class Env(dict):
    def __init__(self, log):
        super().__init__()
        self.log = log

    def __missing__(self, key):
        if _OWN.match(key):
            raise NameError(f"name {key!r} is not defined")
        if key == "UNPICKLER":
            return Stub(("glob", "UNPICKLER", ""), self.log)
        return make_glob("builtins", key, self.log)


class ExecResult:
    __slots__ = ("ok", "env", "log", "error", "phase")


def py2_name(module, name):
    """what `module.name` is renamed to by the unpickler's fix_imports (protocol < 3)"""
    import _compat_pickle

    if (module, name) in _compat_pickle.NAME_MAPPING:
        return _compat_pickle.NAME_MAPPING[(module, name)]
    return _compat_pickle.IMPORT_MAPPING.get(module, module), name


def run_source(src, filename="<decompiled>", map_py2=False):
    """compile + exec `src` under stubs.  Returns ExecResult; never raises for
    failures of the program itself (phase tells where it failed)."""
    r = ExecResult()
    log = Log()
    r.log = log
    r.env = None
    r.error = None
    r.phase = None

    def imp(name, globals=None, locals=None, fromlist=(), level=0):
        m = _Mod()
        for n in fromlist or ():
            # map_py2: the program was decompiled from a pickle below protocol 3, whose Python-2
            # spellings the VM renames; both spellings of a name denote the same global
            m2, n2 = py2_name(name, n) if map_py2 else (name, n)
            log.events.append(("import", m2, n2))
            setattr(m, n, make_glob(m2, n2, log))
        if not fromlist:
            log.events.append(("import", name, None))
        return m

    try:
        code = compile(src, filename, "exec")
    except (SyntaxError, ValueError, RecursionError, MemoryError) as e:
        r.ok = False
        r.error = e
        r.phase = "compile"
        return r
    env = Env(log)
    g = {"__builtins__": {"__import__": imp}}
    try:
        exec(code, g, env)
    except RecursionError as e:
        r.ok = False
        r.error = e
        r.phase = "recursion"
        return r
    except Exception as e:  # noqa: BLE001
        r.ok = False
        r.error = e
        r.phase = "exec"
        r.env = env
        return r
    r.ok = True
    r.env = env
    return r

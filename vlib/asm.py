"""Typed pickle-opcode assembler.

Abstract interpretation of the pickle VM over abstract values *with identity*
(`V`).  An instruction is offered only when its stack precondition holds, so
programs are VM-accepted by construction (the reference VM remains the final
gate).  Two drivers share the typing:

  * `programs(...)`  - a Hypothesis strategy (random, shrinks as one value);
  * `enumerate_programs(...)` - DFS in length order (bounded-exhaustive).

Flags exclude the known findings by construction (DESIGN.md section 5):
  unique_attr_names, no_mutation_after_capture, acyclic.
"""
import struct

from .refvm import norm_module

HASHABLE_SCALARS = {"int", "str", "bytes", "bool", "none", "float", "glob", "obj"}
CALL_OPS = ("REDUCE", "OBJ", "INST", "NEWOBJ", "NEWOBJ_EX", "BUILD", "BINPERSID", "PERSID")


class V:
    __slots__ = ("k", "kids", "cap", "val", "call")

    def __init__(self, k, kids=(), val=None, call=None):
        self.k = k
        self.kids = list(kids)
        self.cap = False
        self.val = val  # constant payload for str (needed by STACK_GLOBAL)
        self.call = call  # opcode name that produced this call result

    def hashable(self, _path=None):
        if self.k in HASHABLE_SCALARS or self.k == "fset":
            return True
        if self.k == "tuple":
            # (under the loosely typed profiles a mutating opcode may have been applied to a
            # tuple-typed value, so the abstract value can contain itself: not hashable)
            _path = _path if _path is not None else set()
            if id(self) in _path:
                return False
            _path.add(id(self))
            try:
                return all(c.hashable(_path) for c in self.kids)
            finally:
                _path.discard(id(self))
        return False

    def __repr__(self):
        return f"V({self.k})"


def reaches(src, target, _seen=None):
    if src is target:
        return True
    _seen = _seen if _seen is not None else set()
    if id(src) in _seen:
        return False
    _seen.add(id(src))
    return any(reaches(c, target, _seen) for c in src.kids)


def capture(v, _seen=None):
    _seen = _seen if _seen is not None else set()
    if id(v) in _seen:
        return
    _seen.add(id(v))
    v.cap = True
    for c in v.kids:
        capture(c, _seen)


# --------------------------------------------------------------------------
# encodings


def _line(b):
    return b + b"\n"


def enc_int(op, v):
    if op == "BININT1":
        return b"K" + bytes([v])
    if op == "BININT2":
        return b"M" + struct.pack("<H", v)
    if op == "BININT":
        return b"J" + struct.pack("<i", v)
    if op == "INT":
        return _line(b"I" + str(v).encode())
    if op == "LONG":
        return _line(b"L" + str(v).encode() + b"L")
    if op in ("LONG1", "LONG4"):
        if v == 0:
            data = b""
        else:
            data = v.to_bytes((v.bit_length() >> 3) + 1, "little", signed=True)
            # pickle trims a redundant sign byte
            if v < 0 and len(data) > 1 and data[-1] == 0xFF and (data[-2] & 0x80):
                data = data[:-1]
        if op == "LONG1":
            return b"\x8a" + bytes([len(data)]) + data
        return b"\x8b" + struct.pack("<i", len(data)) + data
    raise ValueError(op)


def int_ops(v):
    ops = ["INT", "LONG", "LONG1", "LONG4"]
    if 0 <= v < 256:
        ops.append("BININT1")
    if 0 <= v < 65536:
        ops.append("BININT2")
    if -(2**31) <= v < 2**31:
        ops.append("BININT")
    return ops


def enc_bool(op, v):
    if op == "NEWBOOL":
        return b"\x88" if v else b"\x89"
    return b"I01\n" if v else b"I00\n"


def _raw_unicode_escape(s):
    # what pickle.py's protocol-0 save_str does
    s = s.replace("\\", "\\u005c").replace("\0", "\\u0000").replace("\n", "\\u000a")
    s = s.replace("\r", "\\u000d").replace("\x1a", "\\u001a")
    return s.encode("raw-unicode-escape")


def enc_str(op, s):
    u = s.encode("utf-8", "surrogatepass")
    if op == "SHORT_BINUNICODE":
        return b"\x8c" + bytes([len(u)]) + u
    if op == "BINUNICODE":
        return b"X" + struct.pack("<I", len(u)) + u
    if op == "BINUNICODE8":
        return b"\x8d" + struct.pack("<Q", len(u)) + u
    if op == "UNICODE":
        return _line(b"V" + _raw_unicode_escape(s))
    a = s.encode("ascii")
    if op == "STRING":
        return _line(b"S" + repr(s).encode("ascii"))
    if op == "SHORT_BINSTRING":
        return b"U" + bytes([len(a)]) + a
    if op == "BINSTRING":
        return b"T" + struct.pack("<i", len(a)) + a
    raise ValueError(op)


def str_ops(s):
    ops = ["BINUNICODE", "BINUNICODE8", "UNICODE"]
    if len(s.encode("utf-8", "surrogatepass")) < 256:
        ops.append("SHORT_BINUNICODE")
    if s.isascii() and all(32 <= ord(c) < 127 for c in s):
        ops += ["STRING", "BINSTRING"]
        if len(s) < 256:
            ops.append("SHORT_BINSTRING")
    return ops


def enc_bytes(op, b):
    if op == "SHORT_BINBYTES":
        return b"C" + bytes([len(b)]) + b
    if op == "BINBYTES":
        return b"B" + struct.pack("<I", len(b)) + b
    if op == "BINBYTES8":
        return b"\x8e" + struct.pack("<Q", len(b)) + b
    if op == "BYTEARRAY8":
        return b"\x96" + struct.pack("<Q", len(b)) + b
    raise ValueError(op)


def bytes_ops(b):
    ops = ["BINBYTES", "BINBYTES8"]
    if len(b) < 256:
        ops.append("SHORT_BINBYTES")
    return ops


def enc_float(op, f):
    if op == "BINFLOAT":
        return b"G" + struct.pack(">d", f)
    return _line(b"F" + repr(f).encode())


SIMPLE = {
    "NONE": b"N",
    "MARK": b"(",
    "EMPTY_LIST": b"]",
    "EMPTY_DICT": b"}",
    "EMPTY_SET": b"\x8f",
    "EMPTY_TUPLE": b")",
    "POP": b"0",
    "POP_MARK": b"1",
    "DUP": b"2",
    "MEMOIZE": b"\x94",
    "TUPLE": b"t",
    "TUPLE1": b"\x85",
    "TUPLE2": b"\x86",
    "TUPLE3": b"\x87",
    "LIST": b"l",
    "DICT": b"d",
    "FROZENSET": b"\x91",
    "OBJ": b"o",
    "REDUCE": b"R",
    "NEWOBJ": b"\x81",
    "NEWOBJ_EX": b"\x92",
    "BUILD": b"b",
    "BINPERSID": b"Q",
    "APPEND": b"a",
    "APPENDS": b"e",
    "SETITEM": b"s",
    "SETITEMS": b"u",
    "ADDITEMS": b"\x90",
    "STACK_GLOBAL": b"\x93",
    "NEXT_BUFFER": b"\x97",
    "READONLY_BUFFER": b"\x98",
    "STOP": b".",
}


def encode_instr(ins):
    op, arg = ins
    if op in SIMPLE:
        return SIMPLE[op]
    if op in ("BININT1", "BININT2", "BININT", "INT", "LONG", "LONG1", "LONG4"):
        return enc_int(op, arg)
    if op in ("NEWBOOL", "INTBOOL"):
        return enc_bool(op, arg)
    if op in (
        "SHORT_BINUNICODE",
        "BINUNICODE",
        "BINUNICODE8",
        "UNICODE",
        "STRING",
        "SHORT_BINSTRING",
        "BINSTRING",
    ):
        return enc_str(op, arg)
    if op in ("SHORT_BINBYTES", "BINBYTES", "BINBYTES8", "BYTEARRAY8"):
        return enc_bytes(op, arg)
    if op in ("BINFLOAT", "FLOAT"):
        return enc_float(op, arg)
    if op == "GLOBAL":
        return f"c{arg[0]}\n{arg[1]}\n".encode("utf-8")
    if op == "INST":
        return f"i{arg[0]}\n{arg[1]}\n".encode("ascii")
    if op == "PERSID":
        return _line(b"P" + arg.encode("ascii"))
    if op == "PUT":
        return _line(b"p" + str(arg).encode())
    if op == "BINPUT":
        return b"q" + bytes([arg])
    if op == "LONG_BINPUT":
        return b"r" + struct.pack("<I", arg)
    if op == "GET":
        return _line(b"g" + str(arg).encode())
    if op == "BINGET":
        return b"h" + bytes([arg])
    if op == "LONG_BINGET":
        return b"j" + struct.pack("<I", arg)
    if op == "PROTO":
        return b"\x80" + bytes([arg])
    raise ValueError(f"unknown instruction {ins!r}")


def assemble(instrs, proto=None, frame=False):
    body = b"".join(encode_instr(i) for i in instrs)
    if frame:
        body = b"\x95" + struct.pack("<Q", len(body)) + body
    if proto is not None:
        body = b"\x80" + bytes([proto]) + body
    return body


# --------------------------------------------------------------------------
# profiles


class Profile:
    """What the generator may emit."""

    def __init__(
        self,
        ops,
        globs,
        ints=(0, 1, 5),
        strs=("a",),
        byteses=(b"x",),
        floats=(1.5,),
        memo_keys=(0,),
        all_encodings=False,
        unique_attr_names=True,
        no_mutation_after_capture=True,
        acyclic=True,
        star_list_args=False,
        weights=None,
        build_on=("obj", "glob"),
        any_callee=False,
        rebind_dead_names=False,
        list_ops_on_obj=False,
    ):
        self.ops = tuple(ops)
        self.globs = tuple(globs)
        self.ints = tuple(ints)
        self.strs = tuple(strs)
        self.byteses = tuple(byteses)
        self.floats = tuple(floats)
        self.memo_keys = tuple(memo_keys)
        self.all_encodings = all_encodings
        self.unique_attr_names = unique_attr_names
        self.no_mutation_after_capture = no_mutation_after_capture
        self.acyclic = acyclic
        self.star_list_args = star_list_args
        self.weights = dict(weights or {})
        self.build_on = tuple(build_on)
        # any stack value may stand where the VM expects a callable (the real VM would fail with
        # TypeError at that opcode; a static decompiler cannot know): for checks that need no
        # reference VM
        self.any_callee = any_callee
        # with unique_attr_names: a second module may reuse an attribute name once no global of
        # that name is reachable from the stack or the memo any more (the decompile's later
        # `from B import f` then rebinds a name nothing refers to; the shapes of KF-C03-1 all need a
        # live earlier global).  Rebinding *to* a builtin is never allowed: builtins are not imported.
        self.rebind_dead_names = rebind_dead_names
        # APPEND / APPENDS (also with an empty slice) on a call result, as for list subclasses and
        # deques (the VM only needs .append / .extend); opt-in: fickling refuses these today
        self.list_ops_on_obj = list_ops_on_obj


FOCUS_OPS = (
    "NONE", "BININT1", "SHORT_BINUNICODE", "GLOBAL", "STACK_GLOBAL", "MARK", "EMPTY_LIST",
    "EMPTY_DICT", "EMPTY_TUPLE", "POP", "POP_MARK", "DUP", "BINPUT", "BINGET", "MEMOIZE",
    "TUPLE", "TUPLE1", "TUPLE2", "LIST", "OBJ", "INST", "REDUCE", "NEWOBJ", "NEWOBJ_EX",
    "BUILD", "BINPERSID", "APPEND",
)  # fmt: skip

FULL_OPS = FOCUS_OPS + (
    "NEWBOOL", "INTBOOL", "BININT2", "BININT", "INT", "LONG", "LONG1", "LONG4", "BINFLOAT",
    "FLOAT", "BINUNICODE", "BINUNICODE8", "UNICODE", "STRING", "SHORT_BINSTRING", "BINSTRING",
    "SHORT_BINBYTES", "BINBYTES", "BINBYTES8", "BYTEARRAY8", "EMPTY_SET", "TUPLE3", "DICT",
    "FROZENSET", "APPENDS", "SETITEM", "SETITEMS", "ADDITEMS", "PUT", "LONG_BINPUT", "GET",
    "LONG_BINGET", "PERSID",
)  # fmt: skip

# protocol-5 out-of-band buffer opcodes: not part of FULL_OPS (fickling does not implement them and
# how a decompile should name an out-of-band buffer is not determined by any property); the
# shape lock-step (C09) and the determinism check (C13) opt in
BUFFER_OPS = ("NEXT_BUFFER", "READONLY_BUFFER")

INT_POOL = (0, 1, 5, 255, 256, 65535, 65536, 2**31 - 1, 2**31, -1, -(2**31), -(2**31) - 1,
            2**63 - 1, 2**63, -(2**63), 2**100, -(2**100))  # fmt: skip
STR_POOL = ("", "a", "b", "k", "os", "system", "id", "Outer.Inner", "\u00e9", "\u20ac", "\U0001d11e", "a\nb",
            "\\", "'\"", "123", "x" * 300)  # fmt: skip
BYTES_POOL = (b"", b"x", b"\x00\xff", b"\n", b"12", b"y" * 300)
FLOAT_POOL = (0.0, -0.0, 1.5, -2.25, 1e300, float("inf"), float("-inf"), 5e-324)
MEMO_POOL = (0, 1, 2, 7, 255, 256, 321987)


def focus_profile(globs=(("os", "system"), ("builtins", "eval")), ops=FOCUS_OPS, **kw):
    return Profile(ops=ops, globs=globs, ints=(1,), strs=("a",), memo_keys=(0,), **kw)


CONTAINER_OPS = (
    "NONE", "BININT1", "SHORT_BINUNICODE", "MARK", "DICT", "LIST", "TUPLE", "FROZENSET",
    "EMPTY_DICT", "EMPTY_SET", "EMPTY_LIST", "SETITEM", "SETITEMS", "APPEND", "APPENDS", "ADDITEMS",
    "BINPUT", "BINGET", "DUP", "POP", "TUPLE2",
)  # fmt: skip


def container_profile(**kw):
    """second bounded-exhaustive alphabet: every container-building / container-mutating opcode
    with two distinct ints (duplicate and distinct keys), memo aliasing and DUP"""
    return Profile(ops=CONTAINER_OPS, globs=(), ints=(1, 2), strs=("a",), memo_keys=(0,), **kw)


ALIAS_OPS = ("EMPTY_LIST", "EMPTY_DICT", "BINPUT", "BINGET", "DUP", "NONE", "APPEND", "SETITEM",
             "POP", "TUPLE2")  # fmt: skip


def alias_profile(**kw):
    """third bounded-exhaustive alphabet, small enough to go deep: two references to one mutable
    container (memo / DUP), a mutation through one, an observation through the other"""
    return Profile(ops=ALIAS_OPS, globs=(), ints=(1,), strs=("a",), memo_keys=(0,), **kw)


KWARGS_OPS = ("GLOBAL", "EMPTY_TUPLE", "EMPTY_DICT", "MARK", "SHORT_BINUNICODE", "SETITEM", "SETITEMS",
              "NEWOBJ_EX")  # fmt: skip


def kwargs_profile(**kw):
    """fourth bounded-exhaustive alphabet: NEWOBJ_EX with every way of building its keyword dict
    from two keys, one of which is not an identifier (legal: `f(**{"b-c": 1})`)"""
    return Profile(ops=KWARGS_OPS, globs=(("verif_objs", "NewArgsEx"),), ints=(1,), strs=("a", "b-c"),
                   memo_keys=(0,), **kw)  # fmt: skip


BUFFER_ENUM_OPS = ("NEXT_BUFFER", "READONLY_BUFFER", "SHORT_BINBYTES", "BYTEARRAY8", "MARK", "TUPLE",
                   "POP", "BINPUT", "BINGET", "TUPLE2", "NONE")  # fmt: skip


def buffer_profile(**kw):
    """fifth bounded-exhaustive alphabet: the protocol-5 out-of-band buffer opcodes among marks,
    memo traffic and in-band bytes / bytearrays"""
    return Profile(ops=BUFFER_ENUM_OPS, globs=(), ints=(1,), strs=("a",), byteses=(b"x",), memo_keys=(0,), **kw)


ENUM_PROFILES = {"containers": container_profile, "aliasing": alias_profile, "kwargs": kwargs_profile,
                 "buffers": buffer_profile}  # fmt: skip


def full_profile(globs, buffers=False, **kw):
    if kw.get("list_ops_on_obj"):
        kw.setdefault("no_mutation_after_capture", True)
    # default weight is 2; opcodes fickling does not implement get 1 (they end in a refusal)
    weights = {
        "GLOBAL": 10, "REDUCE": 12, "OBJ": 8, "INST": 5, "NEWOBJ": 8, "NEWOBJ_EX": 8, "BUILD": 6,
        "BINPERSID": 3, "MARK": 6, "POP": 4, "DUP": 4, "TUPLE": 4, "TUPLE1": 4, "BINGET": 6,
        "MEMOIZE": 4, "STACK_GLOBAL": 12, "SETITEM": 6, "SETITEMS": 6, "ADDITEMS": 6, "APPEND": 4,
        "APPENDS": 4, "FROZENSET": 4, "DICT": 4, "EMPTY_SET": 3, "EMPTY_DICT": 3, "POP_MARK": 3,
        "PERSID": 1, "FLOAT": 1, "BYTEARRAY8": 1, "EMPTY_TUPLE": 4,
    }  # fmt: skip
    if buffers:
        weights.update(NEXT_BUFFER=5, READONLY_BUFFER=5, BYTEARRAY8=3)
    kw.setdefault("weights", weights)
    return Profile(
        ops=FULL_OPS + (BUFFER_OPS if buffers else ()),
        globs=globs,
        ints=INT_POOL,
        strs=STR_POOL,
        byteses=BYTES_POOL,
        floats=FLOAT_POOL,
        memo_keys=MEMO_POOL,
        all_encodings=True,
        **kw,
    )


# --------------------------------------------------------------------------
# typed state


class State:
    def __init__(self, profile):
        self.p = profile
        self.st = []
        self.memo = {}
        self.names = {}  # attribute name -> normalised module (unique_attr_names)
        self.tags = set()
        self.call_results = []
        self.instrs = []
        self.excluded = {}  # choices withheld because of an exclusion flag
        self.just_mutated_alias = False

    # -- helpers
    def tsm(self):
        n = 0
        for v in reversed(self.st):
            if v.k == "mark":
                return n
            n += 1
        return None

    def _seg(self, n):
        """top n items exist and none is a mark"""
        st = self.st
        return len(st) >= n and all(st[-i].k != "mark" for i in range(1, n + 1))

    def _excl(self, key):
        self.excluded[key] = self.excluded.get(key, 0) + 1

    def _mutable(self, v):
        if self.p.no_mutation_after_capture and v.cap:
            self._excl("KF-C03-2 mutation-after-capture")
            return False
        return True

    def _can_insert(self, items, target):
        if not self.p.acyclic:
            return True
        if any(reaches(x, target) for x in items):
            self._excl("cyclic (outside quantifier)")
            return False
        return True

    def _name_ok(self, module, name):
        if not self.p.unique_attr_names:
            return True
        m = norm_module(module)
        name = name.split(".")[0]  # a qualified name binds (imports) its first component
        if self.names.get(name, m) != m:
            if self.p.rebind_dead_names and m != "builtins" and not self._glob_live(name):
                return True
            self._excl("KF-C03-1 attr-name-collision")
            return False
        return True

    def _glob_live(self, name):
        seen = set()

        def walk(v):
            if id(v) in seen:
                return False
            seen.add(id(v))
            if v.k == "glob" and v.val is not None and v.val[1].split(".")[0] == name:
                return True
            return any(walk(c) for c in v.kids)

        return any(walk(v) for v in self.st) or any(walk(v) for v in self.memo.values())

    def _callable(self, v):
        return v.k in ("glob", "obj") or (self.p.any_callee and v.k != "mark")

    # -- which op kinds are legal now
    def legal_ops(self):
        p = self.p
        st = self.st
        out = []
        t = self.tsm()
        boost = self._boosts(t) if p.weights else {}
        for op in p.ops:
            if self._legal(op, t):
                w = p.weights.get(op, 2 if p.weights else 1)
                out.extend([op] * (w * boost.get(op, 1)))
        return out

    def _boosts(self, t):
        """Goal-directed weighting: steer the random walk towards completing calls."""
        st = self.st
        b = {}
        n = len(st)
        if n >= 1 and self._callable(st[-1]):
            b.update(EMPTY_TUPLE=5, MARK=2, NONE=2)
        if n >= 2 and self._callable(st[-2]) and st[-1].k not in ("mark", "tuple"):
            b.update(TUPLE1=8)
        if n >= 2 and self._callable(st[-2]) and st[-1].k == "tuple":
            b.update(REDUCE=4, NEWOBJ=4, EMPTY_DICT=4)
        if n >= 3 and self._callable(st[-3]) and st[-2].k == "tuple" and st[-1].k == "dict":
            b.update(NEWOBJ_EX=10, SHORT_BINUNICODE=3)
        if n >= 4 and self._callable(st[-4]) and st[-3].k == "tuple" and st[-2].k == "dict":
            if st[-1].k == "str":
                b.update(NONE=3, BININT1=3)
        if n >= 5 and self._callable(st[-5]) and st[-4].k == "tuple" and st[-3].k == "dict":
            b.update(SETITEM=10)
        if t is not None and t >= 1 and self._callable(st[n - t]):
            b.update(OBJ=4)
        if n >= 2 and st[-2].k in ("obj", "glob") and st[-1].k != "mark":
            b.setdefault("BUILD", 3)
        # a mutable container that is referenced more than once (memo / DUP): mutate it
        if n >= 1 and st[-1].k in ("list", "dict", "set") and self._aliased(st[-1]):
            b.update(NONE=3, BININT1=3, MARK=3, POP=2)
        if n >= 2 and st[-2].k == "list" and self._aliased(st[-2]):
            b.update(APPEND=8)
        if n >= 3 and st[-3].k == "dict" and self._aliased(st[-3]):
            b.update(SETITEM=8)
        if t is not None and n - t - 2 >= 0 and self._aliased(st[n - t - 2]):
            b.update(APPENDS=6, SETITEMS=6, ADDITEMS=6)
        if self.just_mutated_alias:
            # expose the *other* reference to the container that was just mutated
            b.update(POP=8, TUPLE2=8, TUPLE=3, BINGET=3)
        return b

    def _aliased(self, v):
        if v.k not in ("list", "dict", "set"):
            return False
        refs = sum(1 for x in self.st if x is v) + sum(1 for x in self.memo.values() if x is v)
        return refs >= 2

    def _legal(self, op, t):
        st = self.st
        p = self.p
        if op in ("NONE", "MARK", "EMPTY_LIST", "EMPTY_DICT", "EMPTY_SET", "EMPTY_TUPLE",
                  "NEWBOOL", "INTBOOL", "BININT1", "BININT2", "BININT", "INT", "LONG", "LONG1",
                  "LONG4", "BINFLOAT", "FLOAT", "SHORT_BINUNICODE", "BINUNICODE", "BINUNICODE8",
                  "UNICODE", "STRING", "SHORT_BINSTRING", "BINSTRING", "SHORT_BINBYTES",
                  "BINBYTES", "BINBYTES8", "BYTEARRAY8", "PERSID"):  # fmt: skip
            return bool(self.params(op))
        if op == "GLOBAL":
            return bool(self.params(op))
        if op == "NEXT_BUFFER":
            return True
        if op == "READONLY_BUFFER":
            return self._seg(1) and st[-1].k in ("bytes", "bytearray", "buffer")
        if op == "STACK_GLOBAL":
            return (
                self._seg(2)
                and st[-1].k == "str"
                and st[-2].k == "str"
                and _valid_modname(st[-1].val)  # identifier or qualified name A.B
                and _valid_modname(st[-2].val)
                and self._name_ok(st[-2].val, st[-1].val)
            )
        if op == "POP":
            return bool(st)
        if op in ("DUP", "PUT", "BINPUT", "LONG_BINPUT", "MEMOIZE", "BINPERSID", "TUPLE1"):
            if not self._seg(1):
                return False
            return bool(self.params(op)) if op in ("PUT", "BINPUT", "LONG_BINPUT") else True
        if op in ("GET", "BINGET", "LONG_BINGET"):
            return bool(self.params(op))
        if op == "TUPLE2":
            return self._seg(2)
        if op == "TUPLE3":
            return self._seg(3)
        if op in ("POP_MARK", "TUPLE", "LIST"):
            return t is not None
        if op == "INST":
            return t is not None and bool(self.params(op))
        if op == "DICT":
            return t is not None and t % 2 == 0 and all(
                st[len(st) - t + i].hashable() for i in range(0, t, 2)
            )
        if op == "FROZENSET":
            return t is not None and all(v.hashable() for v in st[len(st) - t :])
        if op == "OBJ":
            return t is not None and t >= 1 and self._callable(st[len(st) - t])
        if op == "REDUCE":
            if not self._seg(2) or not self._callable(st[-2]):
                return False
            return st[-1].k == "tuple" or (p.star_list_args and st[-1].k == "list")
        if op == "NEWOBJ":
            return self._seg(2) and st[-1].k == "tuple" and self._callable(st[-2])
        if op == "NEWOBJ_EX":
            return (
                self._seg(3)
                and st[-1].k == "dict"
                and all(k.k == "str" and k.val is not None for k in st[-1].kids[0::2])
                and st[-2].k == "tuple"
                and self._callable(st[-3])
            )
        if p.any_callee:
            # loose typing (checks that need no reference VM): any value may be the target of a
            # mutating opcode or of BUILD, as a static decompiler has to accept
            if op == "BUILD":
                return self._seg(2)
            if op == "APPEND":
                return self._seg(2)
            if op == "SETITEM":
                return self._seg(3)
            if op in ("APPENDS", "SETITEMS", "ADDITEMS"):
                if t is None:
                    return False
                mi = len(st) - 1 - t
                return mi >= 1 and st[mi - 1].k != "mark"
        if op == "BUILD":
            return self._seg(2) and st[-2].k in p.build_on
        if p.list_ops_on_obj and op == "APPEND" and self._seg(2) and st[-2].k == "obj":
            return True
        if p.list_ops_on_obj and op == "APPENDS" and t is not None:
            mi = len(st) - 1 - t
            if mi >= 1 and st[mi - 1].k == "obj":
                return True
        if op == "APPEND":
            return (
                self._seg(2)
                and st[-2].k == "list"
                and self._mutable(st[-2])
                and self._can_insert([st[-1]], st[-2])
            )
        if op == "SETITEM":
            return (
                self._seg(3)
                and st[-3].k == "dict"
                and st[-2].hashable()
                and self._mutable(st[-3])
                and self._can_insert([st[-1], st[-2]], st[-3])
            )
        if op in ("APPENDS", "SETITEMS", "ADDITEMS"):
            if t is None:
                return False
            mi = len(st) - 1 - t
            if mi < 1 or st[mi - 1].k == "mark":
                return False
            tgt = st[mi - 1]
            items = st[mi + 1 :]
            if op == "SETITEMS" and t == 0:
                return True  # an empty slice: the VM touches nothing, any target is accepted
            if not self._mutable(tgt) or not self._can_insert(items, tgt):
                return False
            if op == "APPENDS":
                return tgt.k == "list"
            if op == "SETITEMS":
                return tgt.k == "dict" and t % 2 == 0 and all(v.hashable() for v in items[0::2])
            return tgt.k == "set" and all(v.hashable() for v in items)
        if op == "STOP":
            return self._seg(1)
        raise ValueError(op)

    # -- concrete parameter choices for an op kind at this state
    def params(self, op):
        p = self.p
        if op in SIMPLE:
            return [None]
        if op in ("BININT1", "BININT2", "BININT", "INT", "LONG", "LONG1", "LONG4"):
            return [v for v in p.ints if op in int_ops(v)]
        if op in ("NEWBOOL", "INTBOOL"):
            return [True, False]
        if op in ("SHORT_BINUNICODE", "BINUNICODE", "BINUNICODE8", "UNICODE", "STRING",
                  "SHORT_BINSTRING", "BINSTRING"):  # fmt: skip
            return [s for s in p.strs if op in str_ops(s)]
        if op in ("SHORT_BINBYTES", "BINBYTES", "BINBYTES8"):
            return [b for b in p.byteses if op in bytes_ops(b)]
        if op == "BYTEARRAY8":
            return list(p.byteses[:2])
        if op in ("BINFLOAT", "FLOAT"):
            return list(p.floats)
        if op in ("GLOBAL", "INST"):
            return [g for g in p.globs if self._name_ok(*g)]
        if op == "PERSID":
            # the id is the text of the line, whatever it looks like
            return ["pid", "123", "0042", "-5", " 8 ", "1_0", "True", "None", "1.5", "'q'"]
        if op in ("PUT", "LONG_BINPUT"):
            return list(p.memo_keys)
        if op == "BINPUT":
            return [k for k in p.memo_keys if k < 256]
        if op in ("GET", "LONG_BINGET"):
            return sorted(self.memo)
        if op == "BINGET":
            return sorted(k for k in self.memo if k < 256)
        raise ValueError(op)

    # -- effect
    def _popn(self, n):
        st = self.st
        xs = st[len(st) - n :]
        del st[len(st) - n :]
        return xs

    def _bind(self, module, name):
        if self.p.rebind_dead_names:
            self.names[name.split(".")[0]] = norm_module(module)
        else:
            self.names.setdefault(name.split(".")[0], norm_module(module))

    def _call(self, op, parts):
        for v in parts:
            capture(v)
        kind = "obj"
        callee = parts[0] if parts else None
        if (
            callee is not None
            and callee.k == "glob"
            and callee.val is not None
            and (norm_module(callee.val[0]), callee.val[1]) == ("builtins", "frozenset")
        ):
            # the frozenset stand-in really builds a frozenset (plain data, no BUILD on it)
            kind = "fset"
        r = V(kind, parts, call=op)
        self.call_results.append(r)
        self.tags.add("call:" + op)
        return r

    def apply(self, ins):
        op, arg = ins
        st = self.st
        self.instrs.append(ins)
        self.tags.add(op)
        mutated = None
        if op == "APPEND" and len(st) >= 2:
            mutated = st[-2]
        elif op == "SETITEM" and len(st) >= 3:
            mutated = st[-3]
        elif op in ("APPENDS", "SETITEMS", "ADDITEMS"):
            t = self.tsm()
            if t is not None and len(st) - t - 2 >= 0:
                mutated = st[len(st) - t - 2]
        self.just_mutated_alias = mutated is not None and self._aliased(mutated)
        if op == "NONE":
            st.append(V("none"))
        elif op in ("BININT1", "BININT2", "BININT", "INT", "LONG", "LONG1", "LONG4"):
            st.append(V("int", val=arg))
        elif op in ("NEWBOOL", "INTBOOL"):
            st.append(V("bool", val=arg))
        elif op in ("BINFLOAT", "FLOAT"):
            st.append(V("float", val=arg))
        elif op in ("SHORT_BINUNICODE", "BINUNICODE", "BINUNICODE8", "UNICODE", "STRING",
                    "SHORT_BINSTRING", "BINSTRING"):  # fmt: skip
            st.append(V("str", val=arg))
        elif op in ("SHORT_BINBYTES", "BINBYTES", "BINBYTES8"):
            st.append(V("bytes", val=arg))
        elif op == "BYTEARRAY8":
            st.append(V("bytearray", val=arg))
        elif op == "NEXT_BUFFER":
            st.append(V("buffer"))
        elif op == "READONLY_BUFFER":
            if st[-1].k != "bytes":
                st[-1] = V("buffer")
        elif op == "MARK":
            st.append(V("mark"))
        elif op == "EMPTY_LIST":
            st.append(V("list"))
        elif op == "EMPTY_DICT":
            st.append(V("dict"))
        elif op == "EMPTY_SET":
            st.append(V("set"))
        elif op == "EMPTY_TUPLE":
            st.append(V("tuple"))
        elif op == "GLOBAL":
            self._bind(*arg)
            st.append(V("glob", val=arg))
        elif op == "STACK_GLOBAL":
            name, module = st.pop(), st.pop()
            self._bind(module.val, name.val)
            st.append(V("glob", val=(module.val, name.val)))
        elif op == "POP":
            v = st.pop()
            if v.call:
                self.tags.add("disp:pop")
        elif op == "DUP":
            st.append(st[-1])
            if st[-1].call:
                self.tags.add("disp:dup")
        elif op in ("PUT", "BINPUT", "LONG_BINPUT"):
            self.memo[arg] = st[-1]
            if st[-1].call:
                self.tags.add("disp:memo")
        elif op == "MEMOIZE":
            self.memo[len(self.memo)] = st[-1]
            if st[-1].call:
                self.tags.add("disp:memo")
        elif op in ("GET", "BINGET", "LONG_BINGET"):
            v = self.memo[arg]
            st.append(v)
            if v.call:
                self.tags.add("disp:memoget")
            if v.k in ("list", "dict", "set"):
                self.tags.add("memoget-mutable")
        elif op == "TUPLE1":
            st.append(V("tuple", self._popn(1)))
        elif op == "TUPLE2":
            st.append(V("tuple", self._popn(2)))
        elif op == "TUPLE3":
            st.append(V("tuple", self._popn(3)))
        elif op in ("TUPLE", "LIST", "DICT", "FROZENSET", "POP_MARK", "OBJ", "INST",
                    "APPENDS", "SETITEMS", "ADDITEMS"):  # fmt: skip
            t = self.tsm()
            xs = self._popn(t)
            st.pop()
            if op == "TUPLE":
                st.append(V("tuple", xs))
            elif op == "LIST":
                st.append(V("list", xs))
            elif op == "DICT":
                st.append(V("dict", xs))
            elif op == "FROZENSET":
                st.append(V("fset", xs))
            elif op == "POP_MARK":
                if any(x.call for x in xs):
                    self.tags.add("disp:popmark")
            elif op == "OBJ":
                st.append(self._call(op, xs))
            elif op == "INST":
                self._bind(*arg)
                st.append(self._call(op, [V("glob", val=arg)] + xs))
            elif xs:
                st[-1].kids += xs
        elif op == "REDUCE":
            st.append(self._call(op, self._popn(2)))
        elif op == "NEWOBJ":
            st.append(self._call(op, self._popn(2)))
        elif op == "NEWOBJ_EX":
            st.append(self._call(op, self._popn(3)))
        elif op == "BUILD":
            state = st.pop()
            capture(state)
            if state.call:
                self.tags.add("disp:buildstate")
            if st[-1].call:
                self.tags.add("disp:buildtarget")
            self.tags.add("call:BUILD")
            # the target keeps its identity; remember the state hangs off it
            st[-1].kids.append(state)
        elif op == "BINPERSID":
            st.append(self._call(op, self._popn(1)))
        elif op == "PERSID":
            st.append(self._call(op, []))
        elif op == "APPEND":
            x = st.pop()
            st[-1].kids.append(x)
        elif op == "SETITEM":
            xs = self._popn(2)
            st[-1].kids += xs
        elif op == "STOP":
            top = st[-1]
            below = st[:-1]
            if any(v.call for v in below):
                self.tags.add("disp:below")
            discarded = [r for r in self.call_results if not reaches(top, r)]
            if discarded:
                self.tags.add("disp:unreachable")
            if any(r is not top for r in self.call_results):
                self.tags.add("call-not-result")
        else:
            raise ValueError(op)


def _valid_ident(s):
    # a name an `import` statement can spell: identifier, ASCII, not a reserved word (a module
    # called `is` or `or` cannot be written in Python source at all: outside the domain)
    import keyword

    return isinstance(s, str) and s.isidentifier() and s.isascii() and not keyword.iskeyword(s)


def _valid_modname(s):
    return isinstance(s, str) and s != "" and all(_valid_ident(x) for x in s.split("."))


def finalize(state, single_result=False):
    """Make the program stoppable and append STOP. Returns the closing instrs.
    single_result: pop everything above the bottom-most item first, so that exactly one
    object is on the VM stack at STOP."""
    closing = []
    if single_result:
        while len(state.st) > 1:
            ins = ("POP", None)
            state.apply(ins)
            closing.append(ins)
    while state.st and state.st[-1].k == "mark":
        ins = ("POP", None)
        state.apply(ins)
        closing.append(ins)
    if not state.st:
        ins = ("NONE", None)
        state.apply(ins)
        closing.append(ins)
    ins = ("STOP", None)
    state.apply(ins)
    closing.append(ins)
    return closing


class Program:
    __slots__ = ("instrs", "proto", "frame", "tags", "data", "ncalls", "excluded")

    def __init__(self, instrs, proto, frame, tags, ncalls, excluded=None):
        self.excluded = dict(excluded or {})
        self.instrs = list(instrs)
        self.proto = proto
        self.frame = frame
        self.tags = frozenset(tags)
        self.ncalls = ncalls
        self.data = assemble(self.instrs, proto, frame)

    def to_json(self):
        return {
            "instrs": [[op, _j(arg)] for op, arg in self.instrs],
            "proto": self.proto,
            "frame": self.frame,
            "hex": self.data.hex(),
        }

    def __repr__(self):
        return f"Program({self.data!r})"


def _j(arg):
    if isinstance(arg, bytes):
        return {"b": arg.hex()}
    if isinstance(arg, tuple):
        return list(arg)
    if isinstance(arg, float):
        return {"f": repr(arg)}
    return arg


def _unj(arg):
    if isinstance(arg, dict) and "b" in arg:
        return bytes.fromhex(arg["b"])
    if isinstance(arg, dict) and "f" in arg:
        return float(arg["f"])
    if isinstance(arg, list):
        return tuple(arg)
    return arg


def program_from_json(d):
    """Rebuild only the bytes-level program (tags empty) for replay."""
    instrs = [(op, _unj(arg)) for op, arg in d["instrs"]]
    return Program(instrs, d.get("proto"), d.get("frame", False), (), 0)


def simulate(profile, instrs):
    """Type-check an instruction list under a profile. Returns State or None when
    some instruction's precondition does not hold."""
    s = State(profile)
    for ins in instrs:
        op, arg = ins
        t = s.tsm()
        if op != "STOP" and op not in profile.ops:
            return None
        if not s._legal(op, t):
            return None
        if arg is not None or op not in SIMPLE:
            if arg not in s.params(op):
                return None
        s.apply(ins)
    return s


# --------------------------------------------------------------------------
# Hypothesis driver


def programs(profile, max_len=14, min_len=1, framing=True, single_result=False):
    from hypothesis import strategies as hs

    @hs.composite
    def _prog(draw):
        n = draw(hs.integers(min_len, max_len))
        s = State(profile)
        for _ in range(n):
            ops = s.legal_ops()
            if not ops:
                break
            op = draw(hs.sampled_from(ops))
            ps = s.params(op)
            arg = ps[0] if len(ps) == 1 else draw(hs.sampled_from(ps))
            if op == "GLOBAL" and profile.all_encodings and draw(hs.booleans()):
                # same global, resolved through STACK_GLOBAL with drawn string encodings
                for text in arg:
                    enc = draw(hs.sampled_from(str_ops(text)))
                    s.apply((enc, text))
                if s._legal("STACK_GLOBAL", s.tsm()):
                    s.apply(("STACK_GLOBAL", None))
                continue
            s.apply((op, arg))
        finalize(s, single_result)
        proto = None
        frame = False
        if framing:
            proto = draw(hs.sampled_from([None, None, 2, 3, 4, 5]))
            frame = proto is not None and proto >= 4 and draw(hs.booleans())
        return Program(s.instrs, proto, frame, s.tags, len(s.call_results), s.excluded)

    return _prog()


# --------------------------------------------------------------------------
# bounded-exhaustive driver


def _expand(profile, prefix):
    """All legal one-instruction extensions of prefix (weights ignored)."""
    s = simulate_trusted(profile, prefix)
    t = s.tsm()
    out = []
    for op in profile.ops:
        if s._legal(op, t):
            for arg in s.params(op):
                out.append((op, arg))
    return s, out


def simulate_trusted(profile, instrs):
    s = State(profile)
    for ins in instrs:
        s.apply(ins)
    return s


def prefixes(profile, depth):
    """All legal instruction prefixes of exactly `depth` instructions, plus all
    complete shorter ones (as roots for sharding)."""
    level = [()]
    for _ in range(depth):
        nxt = []
        for pre in level:
            _, exts = _expand(profile, pre)
            nxt.extend(pre + (e,) for e in exts)
        level = nxt
    return level


def enumerate_from(profile, prefix, max_len):
    """Yield every Program whose instruction list (before STOP) extends `prefix`
    and has length <= max_len, in DFS order. Programs equal to a strict prefix of
    `prefix` are NOT yielded here (see enumerate_short)."""
    stack = [tuple(prefix)]
    while stack:
        pre = stack.pop()
        s, exts = _expand(profile, pre)
        if pre and s._legal("STOP", s.tsm()):
            s.apply(("STOP", None))
            yield Program(s.instrs, None, False, s.tags, len(s.call_results), s.excluded)
        if len(pre) < max_len:
            for e in reversed(exts):
                stack.append(pre + (e,))


def enumerate_short(profile, depth):
    """Complete programs strictly shorter than `depth` instructions."""
    for d in range(1, depth):
        for pre in prefixes(profile, d):
            s = simulate_trusted(profile, pre)
            if s._legal("STOP", s.tsm()):
                s.apply(("STOP", None))
                yield Program(s.instrs, None, False, s.tags, len(s.call_results), s.excluded)

"""Hand-labelled vocabulary of globals (independent of stdlib_list / fickling tables).

Labels follow the wording of property C04:
  'builtin_exec' : builtins eval / exec / compile / open       -> call => OVERTLY_MALICIOUS (5)
  'builtin'      : any other builtin                            -> call => >= LIKELY_UNSAFE (3)
  'dangerous'    : documented dangerous module or a submodule   -> resolve => >= LIKELY_OVERTLY_MALICIOUS (4)
  'nonstd'       : module outside the standard library          -> resolve or call => >= LIKELY_UNSAFE (3)
  'benign'       : standard library, not documented dangerous   -> no floor
`__main__` is deliberately absent (DESIGN.md 2.5).
"""

BUILTIN_MODULES = ("builtins", "__builtin__")
EXEC_BUILTINS = ("eval", "exec", "compile", "open")
# other spellings of the very same objects (io.open is builtins.open)
EXEC_ALIASES = (("io", "open"), ("_io", "open"))
OTHER_BUILTINS = ("getattr", "__import__", "map", "print", "len", "dict", "set", "apply", "globals")

DANGEROUS_MODULES = (
    "os", "posix", "nt", "subprocess", "sys", "socket", "shutil", "urllib", "urllib.request",
    "os.path", "torch.hub", "dill", "dill._dill", "code", "urllib.parse",
)  # fmt: skip
DANGEROUS_ROOTS = ("os", "posix", "nt", "subprocess", "sys", "socket", "shutil", "urllib",
                   "torch.hub", "dill", "code")  # fmt: skip
# Python-2 module names: the unpickler renames them (copy_reg -> copyreg, Queue -> queue, cStringIO
# -> io, UserDict -> collections, commands -> subprocess) only below protocol 3; from protocol 3 on
# they are what they look like, modules that do not exist in the standard library.  Floors are
# computed from the module the reference VM *effectively* resolves (refvm fix_imports=True).
PY2_MODULES = ("copy_reg", "Queue", "cStringIO", "UserDict", "commands")
NONSTD_MODULES = ("numpy", "torch", "torch._utils", "foo.bar", "pandas", "verif_canary",
                  "numpy.core.multiarray", "torch.storage", "sklearn.svm") + PY2_MODULES  # fmt: skip
BENIGN_MODULES = ("collections", "datetime", "fractions", "decimal", "copyreg", "operator",
                  "functools", "pickle", "shlex", "queue", "io", "_io")  # fmt: skip
HELPER_MODULES = ("verif_objs", "verif_sink")  # the harness's own harmless, non-stdlib modules

# attribute names that individual rules special-case
SPECIAL_ATTRS = (
    "eval", "exec", "open", "compile", "load", "getitem", "attrgetter", "itemgetter",
    "methodcaller", "runstring", "_load_from_bytes", "system", "_run_code", "execWrapper",
)  # fmt: skip
PLAIN_ATTRS = ("Foo", "bar", "OrderedDict", "date", "Fraction", "_reconstructor", "dtype",
               "_rebuild_tensor_v2", "popen", "check_output", "join", "loads")  # fmt: skip


def is_dangerous_module(module):
    parts = module.split(".")
    for i in range(1, len(parts) + 1):
        if ".".join(parts[:i]) in DANGEROUS_ROOTS:
            return True
    return False


def category(module):
    if module in BUILTIN_MODULES or module == "__builtins__":
        return "builtins"
    if is_dangerous_module(module):
        return "dangerous"
    if module in NONSTD_MODULES or module in HELPER_MODULES:
        return "nonstd"
    if module in BENIGN_MODULES:
        return "benign"
    raise KeyError(module)


def all_modules():
    return BUILTIN_MODULES + DANGEROUS_MODULES + NONSTD_MODULES + BENIGN_MODULES


# a compact glob list for the assemblers (attribute names pairwise distinct so the
# unique_attr_names flag never starves the generator)
ASM_GLOBS = (
    ("os", "system"),
    ("builtins", "eval"),
    ("__builtin__", "exec"),
    ("builtins", "getattr"),
    ("collections", "OrderedDict"),
    ("foo.bar", "Baz"),
    ("torch", "load"),
    ("subprocess", "Popen"),
    ("copyreg", "_reconstructor"),
    ("numpy", "dtype"),
    ("builtins", "frozenset"),
    ("builtins", "set"),
    # protocol-4 qualified names (nested classes, methods)
    ("verif_objs", "Outer.Inner"),
    ("collections", "Counter.most_common"),
)
# Python-2 spellings the unpickler renames below protocol 3 (module only, module and name, and two
# that are also real Python 3 modules)
ASM_GLOBS_PY2 = (
    ("copy_reg", "_reconstructor2"), ("Queue", "Queue"), ("itertools", "izip"), ("dbm", "whichdb"),
    ("commands", "getoutput"), ("UserDict", "IterableUserDict"), ("itertools", "ifilterfalse"),
    ("_elementtree", "Element"), ("exceptions", "StandardError"),
)
# the same attribute names in other modules: only for generators that allow a name to be rebound
# once the earlier global is dead (asm rebind_dead_names)
ASM_GLOBS_COLLIDING = ASM_GLOBS + (
    ("other.mod", "Baz"), ("numpy", "load"), ("verif_objs", "OrderedDict"), ("posix", "system"),
    ("foo.bar", "dtype"), ("copyreg", "Popen"),
)

"""Reference pickle VM: CPython's pure-Python unpickler run over inert stubs.

The trusted base is `pickle._Unpickler` itself; this file only
  * replaces global resolution / persistent_load by inert, logging stand-ins,
  * normalises NEWOBJ / NEWOBJ_EX to "call cls with args/kwargs" (fickling's
    documented model of these opcodes),
  * copies the `load()` loop verbatim with one callback after every dispatched
    opcode so the VM's shape (depth, mark positions, memo keys) can be observed.

Nothing named by a pickle is ever imported, resolved or called here.
"""
import io
import itertools
import pickle
from pickle import _Stop, _Unframer, _Unpickler

BUILTIN_FAMILY = ("builtins", "__builtin__", "__builtins__")


def norm_module(module):
    return "builtins" if module in BUILTIN_FAMILY else module


class Cyclic(Exception):
    """The value contains a container that (transitively) contains itself."""


class Log:
    """Event log shared by all stubs of one execution."""

    def __init__(self):
        self.events = []  # ("import", m, n) | ("call", callee, args, kwargs)
        self.ncalls = 0

    def imports(self):
        return [e for e in self.events if e[0] == "import"]

    def calls(self):
        return [e for e in self.events if e[0] == "call"]


class Stub:
    """Inert stand-in for a global, an attribute of one, or a call result."""

    __slots__ = ("term", "log", "uid", "live")

    def __init__(self, term, log, uid=None, live=None):
        object.__setattr__(self, "term", term)
        object.__setattr__(self, "log", log)
        object.__setattr__(self, "uid", uid)
        # for call results: the argument objects themselves (a real callee may keep references
        # to them, so a later mutation of an argument is part of the final value)
        object.__setattr__(self, "live", live)

    def __call__(self, *args, **kwargs):
        log = self.log
        callee = self.term
        if callee == ("glob", "builtins", "frozenset") and len(args) == 1 and not kwargs:
            # frozenset has no literal: both the FROZENSET opcode on the VM side and
            # any faithful decompilation are "frozenset(<iterable>)".  The stand-in
            # therefore really builds the frozenset (it is plain data) and logs the
            # call with a container-type-insensitive argument.
            try:
                items = list(args[0])
                value = frozenset(items)
            except TypeError:
                pass
            else:
                cargs = (("items", tuple(sorted({canon_s(x) for x in items}, key=repr))),)
                log.events.append(("call", callee, cargs, ()))
                log.ncalls += 1
                return value
        if callee == ("glob", "builtins", "bytearray") and len(args) <= 1 and not kwargs \
                and all(isinstance(a, (bytes, bytearray)) for a in args):
            # likewise BYTEARRAY8 has no literal: source can only say bytearray(b"...").  The
            # stand-in builds the (plain-data) bytearray; the call is still logged.
            log.events.append(("call", callee, tuple(("bytes-like", bytes(a)) for a in args), ()))
            log.ncalls += 1
            return bytearray(*args)
        cargs = tuple(canon_s(a) for a in args)
        ckw = tuple(sorted((str(k), canon_s(v)) for k, v in kwargs.items()))
        ev = ("call", callee, cargs, ckw)
        log.events.append(ev)
        log.ncalls += 1
        return Stub(("res", ev), log, uid=len(log.events) - 1, live=(callee, args, kwargs))

    def __getattr__(self, name):
        if name.startswith("__") and name.endswith("__") and name != "__setstate__":
            raise AttributeError(name)
        return Stub(("attr", self.term, name), self.log, uid=self.uid)

    def __setattr__(self, name, value):
        raise AttributeError("stubs are immutable")

    def __hash__(self):
        return hash(repr(self.term)) ^ hash(self.uid)

    def __eq__(self, other):
        return isinstance(other, Stub) and other.term == self.term and other.uid == self.uid

    def __repr__(self):
        return f"Stub({self.term!r}#{self.uid})"


def make_glob(module, name, log):
    """stand-in for the global `module.name`; a qualified name `A.B` (protocol >= 4) is the
    attribute `B` of the global `A`, which is how any valid Python source must refer to it"""
    if isinstance(name, str) and "." in name:
        first, *rest = name.split(".")
        stub = Stub(("glob", norm_module(module), first), log)
        for part in rest:
            stub = Stub(("attr", stub.term, part), log)
        return stub
    return Stub(("glob", norm_module(module), name), log)


def norm_import(module, name):
    """import event: what has to be imported to reach `module.name` is its first component"""
    if isinstance(name, str) and "." in name:
        name = name.split(".")[0]
    return ("import", module, name)


def _canon(v, ids, stack, live=False):
    """ids is None -> structural; else dict uid->ordinal (identity-aware).  live: call results are
    rendered with their argument objects as they are *now*, not as they were at call time."""
    if isinstance(v, Stub):
        t = v.term
        if live and v.live is not None and t[0] == "res":
            if any(v is x for x in stack):
                raise Cyclic()
            callee, args, kwargs = v.live
            sub = stack + [v]
            t = ("res-live", callee, tuple(_canon(a, ids, sub, True) for a in args),
                 tuple(sorted((str(k), _canon(x, ids, sub, True)) for k, x in kwargs.items())))  # fmt: skip
        if ids is not None and v.uid is not None:
            if v.uid not in ids:
                ids[v.uid] = len(ids)
            return ("inst", ids[v.uid], t)
        return t
    if isinstance(v, (list, dict, set)):
        if any(v is x for x in stack):
            raise Cyclic()
        stack = stack + [v]
    if isinstance(v, list):
        return ("list", tuple(_canon(x, ids, stack, live) for x in v))
    if isinstance(v, tuple):
        return ("tuple", tuple(_canon(x, ids, stack, live) for x in v))
    if isinstance(v, dict):
        return ("dict", tuple((_canon(k, ids, stack, live), _canon(x, ids, stack, live)) for k, x in v.items()))
    if isinstance(v, (set, frozenset)):
        # order-insensitive; identity numbering inside sets is not attempted
        return (type(v).__name__, tuple(sorted((_canon(x, None, stack, live) for x in v), key=repr)))
    if isinstance(v, bool) or v is None:
        return (type(v).__name__, v)
    if isinstance(v, float):
        return ("float", repr(v))
    if isinstance(v, (int, str, bytes)):
        return (type(v).__name__, v)
    if isinstance(v, bytearray):
        return ("bytearray", bytes(v))
    if isinstance(v, memoryview):
        return ("memoryview", bytes(v), v.readonly)
    return ("other", type(v).__name__, repr(v))


def canon_live(v):
    """identity-aware, with call results showing their arguments' current contents"""
    return _canon(v, {}, [], True)


def canon_s(v):
    """Structural canonical term (call results compared by their call term)."""
    return _canon(v, None, [])


def canon_i(v):
    """Identity-aware canonical term: each distinct call-result instance gets an
    ordinal by first occurrence, so `[x, x]` differs from `[f(), f()]`."""
    return _canon(v, {}, [])


class RefVM(_Unpickler):
    def __init__(self, data, on_op=None, fix_imports=False):
        # out-of-band buffers: an unbounded supply of writable buffers, so that NEXT_BUFFER /
        # READONLY_BUFFER programs have a reference behaviour (only used by generators that opt
        # into those opcodes; without them the argument is inert)
        super().__init__(io.BytesIO(data), buffers=(bytearray(b"buf%d" % i) for i in itertools.count()))
        self.log = Log()
        self.on_op = on_op
        # report the module a global is *effectively* resolved in: below protocol 3 the stock
        # unpickler renames Python-2 modules and names (pickle.Unpickler(fix_imports=True))
        self.map_py2 = fix_imports
        self.fc_low = self.fc_high = 0  # globals resolved below / from protocol 3
        self.nops = 0
        self.final_shape = None

    # ---- inert resolution -------------------------------------------------
    def find_class(self, module, name):
        if self.proto < 3:
            self.fc_low += 1
        else:
            self.fc_high += 1
        if self.map_py2 and self.proto < 3:
            import _compat_pickle

            if (module, name) in _compat_pickle.NAME_MAPPING:
                module, name = _compat_pickle.NAME_MAPPING[(module, name)]
            elif module in _compat_pickle.IMPORT_MAPPING:
                module = _compat_pickle.IMPORT_MAPPING[module]
        self.log.events.append(norm_import(module, name))
        return make_glob(module, name, self.log)

    def persistent_load(self, pid):
        unp = Stub(("glob", "UNPICKLER", ""), self.log)
        return unp.persistent_load(pid)

    # ---- observation --------------------------------------------------------
    def shape(self):
        depth = 0
        marks = []
        for s in self.metastack:
            depth += len(s)
            marks.append(depth)
            depth += 1
        depth += len(self.stack)
        return depth, tuple(marks), frozenset(self.memo)

    def load(self):
        self._unframer = _Unframer(self._file_read, self._file_readline)
        self.read = self._unframer.read
        self.readinto = self._unframer.readinto
        self.readline = self._unframer.readline
        self.metastack = []
        self.stack = []
        self.append = self.stack.append
        self.proto = 0
        read = self.read
        dispatch = self.dispatch
        on_op = self.on_op
        try:
            while True:
                key = read(1)
                if not key:
                    raise EOFError
                dispatch[key[0]](self)
                self.nops += 1
                if on_op is not None:
                    on_op(self, key[0])
        except _Stop as stopinst:
            self.nops += 1
            self.final_shape = self.shape()
            if on_op is not None:
                on_op(self, pickle.STOP[0])
            return stopinst.value

    # ---- stated normalisations ----------------------------------------------
    def load_newobj(self):
        args = self.stack.pop()
        cls = self.stack.pop()
        if not isinstance(cls, Stub):
            raise TypeError("NEWOBJ class argument is not a resolved global")
        self.append(cls(*args))

    def load_newobj_ex(self):
        kwargs = self.stack.pop()
        args = self.stack.pop()
        cls = self.stack.pop()
        if not isinstance(cls, Stub):
            raise TypeError("NEWOBJ_EX class argument is not a resolved global")
        self.append(cls(*args, **kwargs))

    dispatch = dict(_Unpickler.dispatch)
    dispatch[pickle.NEWOBJ[0]] = load_newobj
    dispatch[pickle.NEWOBJ_EX[0]] = load_newobj_ex


class RefResult:
    __slots__ = ("ok", "value", "log", "error", "final_shape", "nops", "stack_at_stop", "fc_low", "fc_high")


def run_ref(data, on_op=None, fix_imports=False):
    """Run the reference VM. Never raises for VM rejections: returns ok=False."""
    r = RefResult()
    vm = RefVM(data, on_op=on_op, fix_imports=fix_imports)
    r.log = vm.log
    r.value = None
    r.error = None
    r.stack_at_stop = None
    try:
        r.value = vm.load()
        r.ok = True
        r.stack_at_stop = (list(vm.stack), [list(s) for s in vm.metastack])
    except RecursionError as e:  # pathological nesting: out of domain
        r.ok = False
        r.error = e
    except Exception as e:  # noqa: BLE001 - any VM rejection
        r.ok = False
        r.error = e
    r.final_shape = vm.final_shape
    r.nops = vm.nops
    r.fc_low, r.fc_high = vm.fc_low, vm.fc_high
    return r

"""Runner plumbing: sharding, seeds, evidence, replay files, known findings."""
import hashlib
import importlib
import json
import multiprocessing
import os
import sys
import time
import traceback
from collections import Counter

from . import env

NPROC = int(os.environ.get("VERIF_NPROC", "16"))


class HarnessError(Exception):
    """A fault of the harness itself (exit 2), never a property violation."""


def h64(obj):
    if not isinstance(obj, (bytes, bytearray)):
        obj = json.dumps(obj, sort_keys=True, default=repr).encode()
    return int.from_bytes(hashlib.blake2b(obj, digest_size=8).digest(), "big")


def derive_seed(*parts):
    return h64([str(p) for p in parts]) & 0x7FFFFFFF


class Failure:
    def __init__(self, case, message, details=None, signature=None):
        self.case = case  # JSON-able description sufficient for replay
        self.message = message
        self.details = details or {}
        self.signature = signature

    def to_json(self):
        return {
            "case": self.case,
            "message": self.message,
            "details": self.details,
            "signature": self.signature,
        }


def _trim(x, n=240):
    if isinstance(x, str):
        return x if len(x) <= n else x[:n] + f"...(+{len(x) - n} chars)"
    if isinstance(x, dict):
        return {k: _trim(v, n) for k, v in x.items()}
    if isinstance(x, (list, tuple)):
        return [_trim(v, n) for v in x]
    return x


class ShardResult:
    def __init__(self):
        self.evaluations = 0
        self.nontrivial = set()  # 64-bit hashes of distinct non-trivial cases
        self.nontrivial_count = 0  # used instead when distinctness holds by construction
        self.classes = Counter()
        self.samples = []
        self.failures = []
        self.excluded = Counter()
        self.budget_hit = False
        self.extra = {}  # numeric counters, summed over shards
        self.info = {}  # descriptive values, first shard that sets a key wins
        self.exhaustive = None

    def note(self, case_hash_src, nontrivial, klass=None, sample=None, max_samples=4):
        self.evaluations += 1
        if klass is not None:
            if isinstance(klass, (list, tuple, set, frozenset)):
                for k in klass:
                    self.classes[k] += 1
            else:
                self.classes[klass] += 1
        if nontrivial:
            if case_hash_src is None:
                self.nontrivial_count += 1
            else:
                self.nontrivial.add(h64(case_hash_src))
            self._nt_seen = getattr(self, "_nt_seen", 0) + 1
            # keep samples from different depths of the run, not only the first cases
            if sample is not None and len(self.samples) < max_samples and self._nt_seen in (
                2, 20, 200, 2000, 20000
            ):
                self.samples.append(_trim(sample))

    def pack(self):
        return {
            "evaluations": self.evaluations,
            "nontrivial": list(self.nontrivial),
            "nontrivial_count": self.nontrivial_count,
            "classes": dict(self.classes),
            "samples": self.samples,
            "failures": [f.to_json() for f in self.failures],
            "excluded": dict(self.excluded),
            "budget_hit": self.budget_hit,
            "extra": self.extra,
            "info": self.info,
            "exhaustive": self.exhaustive,
        }


_GUARD = {"started": False, "t0": 0.0, "spec": None}


def _start_guard(spec):
    """Watchdog thread: a shard whose resident memory or wall time explodes (code under
    test not terminating on a generated case) kills its own process; the parent then
    reports a harness error (exit 2), never a violation - time is not an oracle."""
    import threading

    _GUARD["t0"] = time.monotonic()
    _GUARD["spec"] = spec
    if _GUARD["started"]:
        return
    _GUARD["started"] = True
    max_rss = int(os.environ.get("VERIF_SHARD_MAX_RSS_MB", "3500")) * 1024 * 1024
    # the quick tier's shards take seconds; one that is still running after 20 minutes is not going
    # to finish (thorough shards may legitimately run for an hour)
    max_wall = float(os.environ.get("VERIF_SHARD_MAX_WALL_S", "1200" if _GUARD.get("tier") == "quick" else "14400"))
    page = os.sysconf("SC_PAGE_SIZE")
    parent = os.getppid()

    def run():
        while True:
            time.sleep(2.0)
            if os.getppid() != parent:  # the runner was killed: do not linger as an orphan
                os._exit(71)
            try:
                with open("/proc/self/statm") as f:
                    rss = int(f.read().split()[1]) * page
            except OSError:
                rss = 0
            wall = time.monotonic() - _GUARD["t0"]
            if rss > max_rss or wall > max_wall:
                sys.stderr.write(
                    f"GUARD: shard {_GUARD['spec']} exceeded its guard (rss={rss >> 20} MiB, "
                    f"wall={wall:.0f}s); aborting this worker\n"
                )
                sys.stderr.flush()
                os._exit(70)

    threading.Thread(target=run, daemon=True).start()


def _worker(args):
    modname, spec, seed = args
    if not os.environ.get("VERIF_INLINE"):
        _start_guard(spec)
    try:
        os.environ["PYTHONHASHSEED"] = os.environ.get("PYTHONHASHSEED", "0")
        mod = importlib.import_module(modname)
        t0 = time.monotonic()
        res = mod.run_shard(spec, seed)
        out = res.pack()
        out["wall_s"] = time.monotonic() - t0
        out["spec"] = spec
        return ("ok", out)
    except BaseException as e:  # noqa: BLE001
        return ("error", f"{type(e).__name__}: {e}\n{traceback.format_exc()}", spec)


def _regress_worker(args):
    modname, prop, files = args
    try:
        mod = importlib.import_module(modname)
        out = {}
        for fn in files:
            with open(os.path.join(env.REGRESS, prop, fn)) as f:
                doc = json.load(f)
            fail = mod.replay(doc["case"])
            out[fn] = fail.to_json() if fail is not None else None
        return ("ok", out)
    except BaseException as e:  # noqa: BLE001
        return ("error", f"{type(e).__name__}: {e}\n{traceback.format_exc()}")


def _run_regress(modname, prop, files):
    """replays run in a child process so that nothing they import (torch...) or arm (hooks)
    lives in the parent that later forks the shard workers"""
    if not files:
        return {}
    if os.environ.get("VERIF_INLINE"):
        r = _regress_worker((modname, prop, files))
    else:
        from concurrent.futures import ProcessPoolExecutor
        from concurrent.futures.process import BrokenProcessPool

        ctx = multiprocessing.get_context("fork")
        try:
            with ProcessPoolExecutor(max_workers=1, mp_context=ctx) as pool:
                r = list(pool.map(_regress_worker, [(modname, prop, files)]))[0]
        except BrokenProcessPool:
            raise HarnessError("the regression replay worker died")
    if r[0] == "error":
        raise HarnessError(f"regression replays failed:\n{r[1]}")
    return r[1]


def load_known_findings(prop):
    path = os.path.join(env.VERIF_ROOT, "known_findings.json")
    if not os.path.exists(path):
        return []
    with open(path) as f:
        data = json.load(f)
    return [e for e in data.get("findings", []) if prop in e.get("properties", [e.get("property")])]


def write_replay(prop, failure, seed):
    blob = json.dumps(failure.to_json(), sort_keys=True, default=repr)
    name = f"{prop}-{hashlib.sha1(blob.encode()).hexdigest()[:12]}.json"
    path = os.path.join(env.REPLAYS, name)
    with open(path, "w") as f:
        json.dump(
            {"property": prop, "seed": seed, **failure.to_json()},
            f,
            indent=1,
            sort_keys=True,
            default=repr,
        )
    return path


def hypothesis_settings(max_examples, shrink=True):
    from hypothesis import HealthCheck, Phase, settings

    phases = [Phase.generate, Phase.target]
    if shrink:
        phases.append(Phase.shrink)
    return settings(
        max_examples=max_examples,
        database=None,
        deadline=None,
        derandomize=False,
        report_multiple_bugs=False,
        phases=phases,
        suppress_health_check=list(HealthCheck),
        print_blob=False,
    )


class Found(Exception):
    """Raised inside a Hypothesis test body when the oracle reports a violation."""


def hypothesis_search(strategy, body, seed, max_examples, res, batch=None, deadline_s=None):
    """Run `body(case)` over `strategy`.  `body` returns None or a Failure.  On a
    failure Hypothesis shrinks it; the minimal failing case's Failure is appended
    to res.failures.  Cases are generated in batches with derived seeds so a wall
    budget can stop the search early (inconclusive, never a violation)."""
    import warnings

    import hypothesis
    from hypothesis import given

    warnings.filterwarnings("ignore", category=hypothesis.errors.HypothesisWarning)
    batch = batch or max_examples
    done = 0
    b = 0
    t0 = time.monotonic()
    while done < max_examples:
        if deadline_s is not None and time.monotonic() - t0 > deadline_s:
            res.budget_hit = True
            break
        n = min(batch, max_examples - done)
        last = {}

        @hypothesis.seed(derive_seed(seed, "batch", b))
        @hypothesis_settings(n)
        @given(strategy)
        def _t(case):
            f = body(case)
            if f is not None:
                last["f"] = f
                last.setdefault("first", f)
                raise Found(f.message)

        try:
            _t()
        except Found:
            res.failures.append(last["f"])
            return
        except hypothesis.errors.Unsatisfiable as e:
            raise HarnessError(f"generator unsatisfiable: {e}")
        except BaseException as e:  # noqa: BLE001
            # Hypothesis wraps a failure that did not reproduce while shrinking (an effect that
            # only happens once per process, e.g. a first import) in Flaky / FlakyFailure. The
            # oracle did observe a violation: report the first one seen, unshrunk.
            if isinstance(e, (KeyboardInterrupt, SystemExit)):
                raise
            if "first" in last:
                last["first"].details["note"] = (
                    "violation observed once; it did not reproduce when Hypothesis re-ran the "
                    "case in the same process (process-level state), reported unshrunk"
                )
                res.failures.append(last["first"])
                return
            raise
        done += n
        b += 1


MACHINE_BATCH = 1000


def run_machine(machine, holder, res, seed, n, steps):
    """Run a RuleBasedStateMachine class under the common settings.  `holder` is the dict in
    which the machine stores its Failure under "f" before raising Found.  A violation that does
    not reproduce when Hypothesis re-runs the history (state the harness cannot reset) is still
    reported: the first one observed, unshrunk."""
    import warnings

    import hypothesis
    from hypothesis.stateful import run_state_machine_as_test

    warnings.filterwarnings("ignore", category=hypothesis.errors.HypothesisWarning)
    # in batches of MACHINE_BATCH histories: Hypothesis keeps what it has generated for the whole
    # of one run, and a thorough shard of 15000 histories grew past 3 GB.  The first batch keeps
    # the seed a single run had, so budgets up to one batch generate exactly what they did.
    import gc

    try:
        done, b = 0, 0
        while done < n:
            k = min(MACHINE_BATCH, n - done)
            st_ = hypothesis.settings(hypothesis_settings(k), stateful_step_count=steps)
            s_ = derive_seed(seed, "m") if b == 0 else derive_seed(seed, "m", b)
            run_state_machine_as_test(hypothesis.seed(s_)(machine), settings=st_)
            done += k
            b += 1
            gc.collect()
    except Found:
        res.failures.append(holder["f"])
    except BaseException as e:  # noqa: BLE001
        if isinstance(e, (KeyboardInterrupt, SystemExit)):
            raise
        f = holder.get("first") or holder.get("f")
        if f is None:
            raise
        f.details["note"] = (
            "violation observed once; it did not reproduce when Hypothesis re-ran the history in "
            "the same process (state outside the harness's reset), reported unshrunk"
        )
        res.failures.append(f)


def run_check(modname, prop, tier, seed):
    mod = importlib.import_module(modname)
    t0 = time.monotonic()
    violations = []  # (Failure, replay path)
    known_lines = []
    notes = []

    # 1. regression tier: fixed defects must pass, known findings must be recognised
    regress_dir = os.path.join(env.REGRESS, prop)
    regress_run = 0
    known = load_known_findings(prop)
    known_by_replay = {}
    for e in known:
        for rp in e.get("replays", []):
            if rp.get("property", prop) == prop:
                known_by_replay[os.path.normpath(rp["file"])] = e
    if os.path.isdir(regress_dir):
        files = [fn for fn in sorted(os.listdir(regress_dir)) if fn.endswith(".json")]
        replayed = _run_regress(modname, prop, files)
        for fn in files:
            rel = os.path.normpath(os.path.join("regress", prop, fn))
            regress_run += 1
            fj = replayed[fn]
            fail = Failure(fj["case"], fj["message"], fj["details"], fj["signature"]) if fj else None
            kf = known_by_replay.get(rel)
            if kf is not None and kf.get("status") == "open":
                if fail is not None:
                    known_lines.append(
                        f"KNOWN-FINDING: property={prop} {kf['id']} {kf['title']} [{rel}]"
                    )
                else:
                    notes.append(f"NOTE: known finding {kf['id']} no longer reproduces ({rel})")
            else:
                if fail is not None:
                    fail.details["regress_file"] = rel
                    violations.append(fail)

    # 2. generated search
    specs = mod.shards(tier)
    _GUARD["tier"] = tier  # inherited by the forked workers
    # a shard's seed depends on what the shard is, not on its position in the list, so that adding
    # a shard does not reshuffle the others
    seen = {}
    jobs = []
    for spec in specs:
        key = json.dumps(spec, sort_keys=True, default=str)
        seen[key] = seen.get(key, 0) + 1
        jobs.append((modname, spec, derive_seed(seed, prop, key, seen[key])))
    results = []
    if jobs:
        nproc = min(NPROC, len(jobs))
        if nproc <= 1 or os.environ.get("VERIF_INLINE"):
            outs = [_worker(j) for j in jobs]
        else:
            from concurrent.futures import ProcessPoolExecutor
            from concurrent.futures.process import BrokenProcessPool

            ctx = multiprocessing.get_context("fork")
            try:
                with ProcessPoolExecutor(max_workers=nproc, mp_context=ctx) as pool:
                    outs = list(pool.map(_worker, jobs, chunksize=1))
            except BrokenProcessPool:
                raise HarnessError(
                    "a shard worker died (memory/time guard or crash): the code under test did "
                    "not terminate or exhausted memory on a generated case; inconclusive"
                )
        for o in outs:
            if o[0] == "error":
                raise HarnessError(f"shard {o[2]} failed:\n{o[1]}")
            results.append(o[1])

    evaluations = sum(r["evaluations"] for r in results)
    nt = set()
    nt_count = 0
    classes = Counter()
    excluded = Counter()
    samples = []
    budget_hit = False
    extra = {}
    info = {}
    exhaustive_flags = []
    for r in results:
        nt.update(r["nontrivial"])
        nt_count += r["nontrivial_count"]
        classes.update(r["classes"])
        excluded.update(r["excluded"])
        budget_hit = budget_hit or r["budget_hit"]
        for k, v in r["extra"].items():
            extra[k] = extra.get(k, 0) + v
        for k, v in r["info"].items():
            info.setdefault(k, v)
        if r["exhaustive"] is not None:
            exhaustive_flags.append(r["exhaustive"])
        for f in r["failures"]:
            violations.append(Failure(f["case"], f["message"], f["details"], f["signature"]))
    # spread samples over shard kinds, then over shards
    by_kind = {}
    for r in results:
        by_kind.setdefault(str(r["spec"].get("kind")), []).append(r)
    order = []
    for j in range(max((len(v) for v in by_kind.values()), default=0)):
        for k in sorted(by_kind):
            if j < len(by_kind[k]):
                order.append(by_kind[k][j])
    i = 0
    while len(samples) < 12 and any(len(r["samples"]) > i for r in order):
        for r in order:
            if len(r["samples"]) > i and len(samples) < 12:
                samples.append(r["samples"][i])
        i += 1

    wall = time.monotonic() - t0
    cov = {
        "evaluations": evaluations + regress_run,
        "distinct_nontrivial": len(nt) + nt_count,
        "rule": mod.RULE,
        "samples": samples,
        "classes": dict(sorted(classes.items(), key=lambda kv: (-kv[1], kv[0]))[:60]),
        "excluded_by_known_findings": dict(excluded),
        "regression_replays": regress_run,
        "shards": len(results),
        "inconclusive_budget": budget_hit,
        "known_findings_recognised": len(known_lines),
    }
    cov.update(extra)
    cov.update(info)
    cov["exhaustive"] = bool(
        exhaustive_flags
        and len(exhaustive_flags) == len(results)
        and all(exhaustive_flags)
        and not budget_hit
    )
    evidence = {
        "property_id": prop,
        "tier": tier,
        "seed": seed,
        "level": getattr(mod, "LEVEL", "exploration"),
        "coverage": cov,
        "assumptions": list(getattr(mod, "ASSUMPTIONS", [])),
        "wall_s": round(wall, 2),
        "violations": len(violations),
    }
    with open(os.path.join(env.EVIDENCE, f"{prop}.json"), "w") as f:
        json.dump(evidence, f, indent=1, sort_keys=True, default=repr)
        f.write("\n")

    for line in known_lines:
        print(line)
    for line in notes:
        print(line)
    print(
        f"{prop} {tier}: evaluations={cov['evaluations']} distinct_nontrivial="
        f"{cov['distinct_nontrivial']} shards={len(results)} wall={wall:.1f}s"
        + (" (budget hit: inconclusive beyond what was explored)" if budget_hit else "")
    )
    if violations:
        seen = set()
        for fail in violations:
            path = write_replay(prop, fail, seed)
            if path in seen:
                continue
            seen.add(path)
            if len(seen) > 6:
                continue
            print(f"VIOLATION property={prop} replay={path}")
            print(f"  {fail.message[:1500]}")
        if len(seen) > 6:
            print(f"  ... and {len(seen) - 6} more replay files under {env.REPLAYS}")
        return 1
    return 0


def run_replay(modname, prop, path):
    mod = importlib.import_module(modname)
    with open(path) as f:
        doc = json.load(f)
    fail = mod.replay(doc["case"])
    if fail is None:
        print(f"{prop} replay {path}: property holds on this case")
        return 0
    print(f"VIOLATION property={prop} replay={path}")
    print(f"  {fail.message}")
    for k, v in fail.details.items():
        print(f"  {k}: {v}")
    return 1


def main(argv=None):
    import argparse

    ap = argparse.ArgumentParser()
    ap.add_argument("prop")
    ap.add_argument("--tier", default=os.environ.get("VERIF_TIER", "quick"))
    ap.add_argument("--replay", default=None)
    args = ap.parse_args(argv)
    prop = args.prop.upper()
    modname = f"checks.{prop.lower()}"
    try:
        env.check_repo_is_the_one_imported()
        if args.replay:
            return run_replay(modname, prop, args.replay)
        tier = "thorough" if args.tier.startswith("t") else "quick"
        return run_check(modname, prop, tier, env.seed())
    except HarnessError as e:
        sys.stderr.write(f"HARNESS ERROR: {e}\n")
        return 2
    except Exception:  # noqa: BLE001
        sys.stderr.write("HARNESS ERROR (unexpected):\n" + traceback.format_exc())
        return 2

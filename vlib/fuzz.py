"""Coverage-guided byte fuzzing (atheris / libFuzzer) as one more generator for a property.

The fuzz target is a separate process (libFuzzer owns the main loop); the oracle runs inside
the target, which writes `<work>/violation.txt` (hex input + message) and raises when it sees a
violation.  A target crash without such a report is a harness fault (exit 2), never a violation."""
import os
import re
import subprocess
import sys

from . import env
from .runner import Failure, HarnessError, h64
from .sandbox import Scratch


def atheris_available():
    try:
        sys.path.insert(0, env.DEPS)
        import atheris  # noqa: F401

        return True
    except Exception:  # noqa: BLE001
        return False


def run_atheris(res, tag, script, args, runs, seed, seeds=(), max_len=160, nt=None, extra_env=None):
    if not atheris_available():
        res.info["atheris"] = "unavailable in this environment; byte fuzzing skipped"
        return
    with Scratch(f"fz-{tag}") as scratch:
        corpus = os.path.join(scratch.path, "corpus")
        work = os.path.join(scratch.path, "work")
        os.makedirs(corpus)
        os.makedirs(work)
        for i, s in enumerate(seeds):
            with open(os.path.join(corpus, f"seed{i}"), "wb") as f:
                f.write(s)
        e = dict(os.environ)
        e["VERIF_REPO"] = env.REPO
        e["FUZZ_WORK"] = work
        e["PYTHONPATH"] = os.pathsep.join([env.VERIF_ROOT, env.DEPS, e.get("PYTHONPATH", "")])
        e.update(extra_env or {})
        cmd = [sys.executable, script] + list(args) + [
            f"-runs={runs}", f"-seed={(seed % 2**31) or 1}", f"-max_len={max_len}", "-timeout=30",
            "-rss_limit_mb=4096", f"-artifact_prefix={work}/", corpus,
        ]  # fmt: skip
        p = subprocess.run(cmd, capture_output=True, env=e, cwd=work, timeout=6 * 3600)
        err = p.stderr.decode("latin-1", "replace")
        m = re.findall(r"stat::number_of_executed_units:\s*(\d+)", err) or re.findall(r"#(\d+)\s+DONE", err)
        execs = int(m[-1]) if m else 0
        cov = re.findall(r"cov: (\d+)", err)
        res.evaluations += execs
        res.extra["atheris_execs"] = res.extra.get("atheris_execs", 0) + execs
        res.info[f"atheris_cov_{tag}"] = int(cov[-1]) if cov else None
        report = os.path.join(work, "violation.txt")
        if os.path.exists(report):
            with open(report) as f:
                hexdata, msg = f.read().split("\n", 1)
            res.failures.append(Failure({"hex": hexdata}, f"atheris: {msg.strip()}"))
        elif p.returncode != 0:
            raise HarnessError(f"atheris target failed without a violation report ({p.returncode}): {err[-1500:]}")
        n = 0
        for fn in sorted(os.listdir(corpus)):
            with open(os.path.join(corpus, fn), "rb") as f:
                d = f.read()
            if nt is None or nt(d):
                n += 1
                res.nontrivial.add(h64(d))
                if len(res.samples) < 3:
                    res.samples.append({"atheris_corpus": d.hex()[:240]})
        res.extra["atheris_corpus_size"] = res.extra.get("atheris_corpus_size", 0) + len(os.listdir(corpus))

"""Product-cell program builder for C04 / C19.

A cell fixes: a vocabulary entry (module, name) x how it is resolved x how it is
called x the shape of the callee x what happens to the call's value x framing.
`build(cell)` returns the bytes; whether the reference VM accepts them is
decided by the reference VM, not here.
"""
import itertools
import struct

from . import vocab
from .asm import assemble
from .refvm import norm_module

RESOLVE = ("GLOBAL", "SG_SHORT", "SG_BIN", "SG_UNICODE", "SG_MEMO", "INST")
CALL = ("none", "reduce_t1", "reduce_mark", "reduce_empty", "obj", "newobj", "newobj_ex")
CALLEE = ("global", "call_result", "getattr", "memo_overwrite")
DISPOSAL = ("result", "pop", "pop_mark", "below", "build_target", "build_state", "memo",
            "dup_tuple2", "in_list", "in_dict", "in_tuple", "arg_benign")  # fmt: skip
FRAMING = ("bare", "proto2", "proto4_frame", "benign_before", "benign_around")

BENIGN_CALLEE = ("collections", "OrderedDict")
GETATTR = ("builtins", "getattr")


class Skip(Exception):
    """cell not constructible (e.g. would need two globals with one attribute name)"""


class _B:
    def __init__(self):
        self.ins = []
        self.memo_len = 0
        self.names = {}

    def emit(self, op, arg=None):
        self.ins.append((op, arg))

    def memoize(self):
        k = self.memo_len
        self.emit("MEMOIZE")
        self.memo_len += 1
        return k

    def bind(self, module, name):
        m = norm_module(module)
        if self.names.setdefault(name, m) != m:
            raise Skip("attr-name-collision")

    def glob(self, module, name, how="GLOBAL"):
        self.bind(module, name)
        if how == "GLOBAL":
            self.emit("GLOBAL", (module, name))
        elif how in ("SG_SHORT", "SG_BIN", "SG_UNICODE"):
            enc = {"SG_SHORT": "SHORT_BINUNICODE", "SG_BIN": "BINUNICODE", "SG_UNICODE": "UNICODE"}
            self.emit(enc[how], module)
            self.emit(enc[how], name)
            self.emit("STACK_GLOBAL")
        elif how == "SG_MEMO":
            self.emit("SHORT_BINUNICODE", module)
            k1 = self.memoize()
            self.emit("POP")
            self.emit("SHORT_BINUNICODE", name)
            k2 = self.memoize()
            self.emit("POP")
            self.emit("BINGET", k1)
            self.emit("BINGET", k2)
            self.emit("STACK_GLOBAL")
        else:
            raise ValueError(how)


def build(cell):
    """cell = dict(module, name, resolve, call, callee, disposal, framing).
    Returns bytes. Raises Skip for non-constructible combinations."""
    module, name = cell["module"], cell["name"]
    resolve, call, callee = cell["resolve"], cell["call"], cell["callee"]
    disposal, framing = cell["disposal"], cell["framing"]
    arg = cell.get("arg", "id")
    b = _B()

    if resolve == "INST" and (call != "inst" or callee != "global"):
        raise Skip("INST resolves and calls at once")
    if call == "inst" and resolve != "INST":
        raise Skip("inst call needs INST resolution")
    if call == "none" and callee != "global":
        raise Skip("no call: callee shape irrelevant")

    # ---- framing prefix
    if framing in ("benign_before", "benign_around"):
        b.emit("EMPTY_LIST")
        b.memoize()
        b.emit("BININT1", 7)
        b.emit("APPEND")
        b.emit("SHORT_BINUNICODE", "benign")
        b.memoize()
        b.emit("POP")
        b.emit("POP")
    if framing == "benign_around":
        b.emit("MARK")
        b.emit("BININT1", 1)

    # ---- disposal prefix (things that must sit below the value)
    if disposal == "pop_mark":
        b.emit("MARK")
    elif disposal == "build_state":
        b.glob(*BENIGN_CALLEE)
        b.emit("EMPTY_TUPLE")
        b.emit("REDUCE")
    elif disposal == "in_list":
        b.emit("EMPTY_LIST")
    elif disposal == "in_dict":
        b.emit("EMPTY_DICT")
        b.emit("SHORT_BINUNICODE", "k")
    elif disposal == "arg_benign":
        b.glob(*BENIGN_CALLEE)

    # ---- the value: resolve (+ call)
    if call == "obj":
        b.emit("MARK")
    if call == "inst":
        b.bind(module, name)
        b.emit("MARK")
        b.emit("SHORT_BINUNICODE", arg)
        b.emit("INST", (module, name))
    else:
        if callee == "global":
            b.glob(module, name, resolve)
        elif callee == "call_result":
            b.glob(module, name, resolve)
            b.emit("EMPTY_TUPLE")
            b.emit("REDUCE")
        elif callee == "memo_overwrite":
            # "differ only in memo use": a benign global is PUT at the index the next MEMOIZE
            # will use, the real callee is MEMOIZEd over it, and fetched back by that index
            b.glob(*BENIGN_CALLEE)
            k = b.memo_len + 1
            b.emit("BINPUT", k)
            b.memo_len += 1
            b.emit("POP")
            b.glob(module, name, resolve)
            b.emit("MEMOIZE")  # the VM writes slot len(memo) == k
            b.emit("POP")
            b.emit("BINGET", k)
        elif callee == "getattr":
            b.glob(*GETATTR)
            b.emit("MARK")
            b.glob(module, name, resolve)
            b.emit("SHORT_BINUNICODE", "attr")
            b.emit("TUPLE")
            b.emit("REDUCE")
        if call == "none":
            pass
        elif call == "reduce_t1":
            b.emit("SHORT_BINUNICODE", arg)
            b.emit("TUPLE1")
            b.emit("REDUCE")
        elif call == "reduce_mark":
            b.emit("MARK")
            b.emit("SHORT_BINUNICODE", arg)
            b.emit("TUPLE")
            b.emit("REDUCE")
        elif call == "reduce_empty":
            b.emit("EMPTY_TUPLE")
            b.emit("REDUCE")
        elif call == "obj":
            b.emit("SHORT_BINUNICODE", arg)
            b.emit("OBJ")
        elif call == "newobj":
            b.emit("SHORT_BINUNICODE", arg)
            b.emit("TUPLE1")
            b.emit("NEWOBJ")
        elif call == "newobj_ex":
            b.emit("SHORT_BINUNICODE", arg)
            b.emit("TUPLE1")
            b.emit("EMPTY_DICT")
            b.emit("NEWOBJ_EX")
        else:
            raise ValueError(call)

    # ---- disposal suffix
    if disposal == "result":
        pass
    elif disposal == "pop":
        b.emit("POP")
        b.emit("NONE")
    elif disposal == "pop_mark":
        b.emit("POP_MARK")
        b.emit("NONE")
    elif disposal == "below":
        b.emit("NONE")
    elif disposal == "build_target":
        b.emit("EMPTY_DICT")
        b.emit("BUILD")
    elif disposal == "build_state":
        b.emit("BUILD")
    elif disposal == "memo":
        k = b.memoize()
        b.emit("POP")
        b.emit("BINGET", k)
    elif disposal == "dup_tuple2":
        b.emit("DUP")
        b.emit("TUPLE2")
    elif disposal == "in_list":
        b.emit("APPEND")
    elif disposal == "in_dict":
        b.emit("SETITEM")
    elif disposal == "in_tuple":
        b.emit("TUPLE1")
    elif disposal == "arg_benign":
        b.emit("TUPLE1")
        b.emit("REDUCE")
    else:
        raise ValueError(disposal)

    if framing == "benign_around":
        b.emit("SHORT_BINUNICODE", "after")
        b.emit("TUPLE")
    b.emit("STOP")
    proto = {"proto2": 2, "proto4_frame": 4}.get(framing)
    return assemble(b.ins, proto=proto, frame=(framing == "proto4_frame"))


def entries_c04():
    """labelled (module, name) pairs for the detection-floor product"""
    out = []
    for m in vocab.BUILTIN_MODULES:
        for n in vocab.EXEC_BUILTINS + vocab.OTHER_BUILTINS:
            out.append((m, n))
    for m in vocab.DANGEROUS_MODULES:
        out.append((m, "system"))
        out.append((m, "Foo"))
    for m in vocab.NONSTD_MODULES:
        out.append((m, "load"))
        out.append((m, "Foo"))
    for m in vocab.BENIGN_MODULES:
        out.append((m, "date"))
        out.append((m, "Fraction"))
    out += list(vocab.EXEC_ALIASES)
    return out


def entries_c19():
    """every module x every special-cased attribute name (+ two plain ones)"""
    out = []
    for m in vocab.all_modules():
        for n in vocab.SPECIAL_ATTRS + ("Foo", "loads"):
            out.append((m, n))
    return out


def call_ops_for(resolve):
    return ("inst",) if resolve == "INST" else CALL


def all_cells(entries, resolves=RESOLVE, callees=CALLEE, disposals=DISPOSAL, framings=FRAMING):
    for (m, n), r in itertools.product(entries, resolves):
        for c in call_ops_for(r):
            shapes = ("global",) if c in ("none", "inst") else callees
            for s, d, f in itertools.product(shapes, disposals, framings):
                yield {"module": m, "name": n, "resolve": r, "call": c, "callee": s,
                       "disposal": d, "framing": f}  # fmt: skip


def cell_strategy(entries):
    from hypothesis import strategies as st

    @st.composite
    def _cell(draw):
        m, n = draw(st.sampled_from(entries))
        r = draw(st.sampled_from(RESOLVE))
        c = draw(st.sampled_from(call_ops_for(r)))
        s = "global" if c in ("none", "inst") else draw(st.sampled_from(CALLEE))
        d = draw(st.sampled_from(DISPOSAL))
        f = draw(st.sampled_from(FRAMING))
        return {"module": m, "name": n, "resolve": r, "call": c, "callee": s, "disposal": d,
                "framing": f}  # fmt: skip

    return _cell()


_ = struct

"""Hypothesis strategies for Python values that pickle encodes (DESIGN.md 2.6)."""
import math

from hypothesis import strategies as st

INT_BOUNDARY = [0, 1, -1, 2, 255, 256, 257, 65535, 65536, 65537, 2**31 - 1, 2**31, 2**31 + 1,
                -(2**31), -(2**31) - 1, 2**63 - 1, 2**63, -(2**63), -(2**63) - 1, 2**100,
                -(2**100), 10**40]  # fmt: skip
FLOAT_BOUNDARY = [0.0, -0.0, 1.0, -1.0, 1.5, -2.25, 0.1, 1e300, -1e300, float("inf"),
                  float("-inf"), 5e-324, 2.2250738585072014e-308, 123456789.125]  # fmt: skip
TEXT_BOUNDARY = ["", "a", "abc", "123", "0", "-1", "1.5", "True", "None", "é", "ÿ",
                 "Ā", "€", "￿", "\U0001d11e", "\U0010ffff", "a\nb", "\n", "\r",
                 "\t", "\x00", "\x1a", "\\", "\\n", "\\u0041", "'", '"', "'\"", "a b", " ",
                 "x" * 255, "x" * 256, "é" * 128, "os", "system"]  # fmt: skip
BYTES_BOUNDARY = [b"", b"a", b"12", b"0", b"\x00", b"\xff", b"\n", b"\\", b"'", b"a\nb",
                  b"\x80abc", b"y" * 255, b"y" * 256]  # fmt: skip


def ints():
    return st.one_of(st.sampled_from(INT_BOUNDARY), st.integers(-(2**70), 2**70))


def floats():
    return st.one_of(
        st.sampled_from(FLOAT_BOUNDARY), st.floats(allow_nan=False, allow_infinity=True)
    )


def texts(max_size=12):
    alpha = st.one_of(
        st.characters(min_codepoint=0, max_codepoint=0x7F),
        st.characters(min_codepoint=0x80, max_codepoint=0xFF),
        st.characters(min_codepoint=0x100, max_codepoint=0xFFFF, blacklist_categories=("Cs",)),
        st.characters(min_codepoint=0x10000, max_codepoint=0x10FFFF),
        st.sampled_from(list("0123456789'\"\\\n\r")),
    )
    return st.one_of(st.sampled_from(TEXT_BOUNDARY), st.text(alpha, max_size=max_size))


def byteses(max_size=12):
    return st.one_of(st.sampled_from(BYTES_BOUNDARY), st.binary(max_size=max_size))


def scalars(extra=False):
    base = [st.none(), st.booleans(), ints(), floats(), texts(), byteses()]
    if extra:
        # other "numbers"/"bytes" pickle encodes through builtins calls (complex, bytearray)
        base += [
            st.tuples(st.sampled_from(FLOAT_BOUNDARY), st.sampled_from(FLOAT_BOUNDARY)).map(lambda t: complex(*t)),
            byteses().map(bytearray),
        ]
    return st.one_of(*base)


def hashables(depth=2):
    base = st.one_of(st.none(), st.booleans(), ints(), texts(6), byteses(6), floats())
    if depth <= 0:
        return base
    sub = hashables(depth - 1)
    return st.one_of(
        base,
        base,
        st.lists(sub, max_size=3).map(tuple),
        st.frozensets(sub, max_size=3),
    )


def plain_values(with_sets=True, max_leaves=12, extra_scalars=False):
    """Acyclic plain data: scalars, lists, tuples (0-5), dicts, sets, frozensets,
    with shared sub-objects."""

    def extend(children):
        opts = [
            st.lists(children, max_size=4),
            st.lists(children, max_size=5).map(tuple),
            st.dictionaries(hashables(1), children, max_size=4),
            children.map(lambda x: [x, x, (x,)]),  # shared reference
            children.map(lambda x: {"k": x, "again": x}),
        ]
        if with_sets:
            opts.append(st.sets(hashables(1), max_size=4))
            opts.append(st.frozensets(hashables(1), max_size=4))
        return st.one_of(*opts)

    return st.recursive(scalars(extra=extra_scalars), extend, max_leaves=max_leaves)


def instance_values():
    """Values containing instances of the helper classes (natural encodings of
    BUILD / NEWOBJ / NEWOBJ_EX / REDUCE / __setstate__)."""
    import verif_objs as vo

    leaf = plain_values(max_leaves=5)
    small = st.one_of(st.none(), st.booleans(), ints(), texts(4))

    def plain(d):
        return vo.Plain(**d)

    inst = st.one_of(
        st.dictionaries(st.sampled_from(["a", "b", "c", "x1"]), leaf, max_size=3).map(plain),
        st.tuples(small, leaf).map(lambda t: vo.Slotted(*t)),
        st.tuples(st.lists(small, max_size=3), st.one_of(st.none(), st.just({"s": 1}))).map(
            lambda t: vo.Reducer(t[0], t[1])
        ),
        st.lists(small, max_size=4).map(lambda xs: vo.NewArgs(*xs)),
        st.tuples(
            st.lists(small, max_size=2),
            st.dictionaries(st.sampled_from(["p", "q", "b-c"]), small, max_size=2),
        ).map(lambda t: vo.NewArgsEx(*t[0], **t[1])),
        leaf.map(vo.WithSetstate),
        st.lists(small, max_size=3).map(vo.ListLike),
        st.dictionaries(st.sampled_from(["a", "b"]), small, max_size=2).map(vo.DictLike),
        small.map(vo.Outer.Inner),  # nested class: qualified global name at protocol >= 4
        st.just(vo.Outer.Inner),  # the class object itself
    )

    def extend(children):
        return st.one_of(
            st.lists(children, max_size=3),
            st.lists(children, max_size=3).map(tuple),
            st.dictionaries(st.sampled_from(["k1", "k2", 3]), children, max_size=3),
            children.map(lambda x: [x, x]),
            children.map(lambda x: vo.Plain(inner=x, again=x)),
        )

    return st.recursive(st.one_of(inst, inst, leaf), extend, max_leaves=6)


def deep_equal(a, b):
    """type-exact, float-sign-aware, set-order-insensitive equality"""
    if type(a) is not type(b):
        return False
    if isinstance(a, float):
        if math.isnan(a) or math.isnan(b):
            return math.isnan(a) and math.isnan(b)
        return a == b and math.copysign(1.0, a) == math.copysign(1.0, b)
    if isinstance(a, (list, tuple)):
        return len(a) == len(b) and all(deep_equal(x, y) for x, y in zip(a, b))
    if isinstance(a, dict):
        if len(a) != len(b):
            return False
        for (ka, va), (kb, vb) in zip(a.items(), b.items()):
            if not deep_equal(ka, kb) or not deep_equal(va, vb):
                return False
        return True
    if isinstance(a, complex):
        return deep_equal(a.real, b.real) and deep_equal(a.imag, b.imag)
    if isinstance(a, (set, frozenset)):
        if len(a) != len(b) or a != b:
            return False
        # elements equal as sets; additionally require type-exact matches
        for x in a:
            if not any(deep_equal(x, y) for y in b if y == x):
                return False
        return True
    return a == b


def features(v, _d=0, _seen=None, _out=None):
    """tags describing a value (for the non-triviality rule / histograms)"""
    top = _out is None
    if top:
        _out = set()
        _seen = {}
    if isinstance(v, (list, tuple, dict, set, frozenset)):
        if id(v) in _seen and isinstance(v, (list, dict, set)):
            _out.add("shared")
        _seen[id(v)] = v
        _out.add(type(v).__name__)
        if _d >= 1:
            _out.add("nested")
        items = list(v.items()) if isinstance(v, dict) else list(v)
        for it in items:
            if isinstance(v, dict):
                features(it[0], _d + 1, _seen, _out)
                features(it[1], _d + 1, _seen, _out)
            else:
                features(it, _d + 1, _seen, _out)
    elif hasattr(v, "__dict__") or hasattr(v, "__slots__"):
        _out.add("instance")
    else:
        _out.add(type(v).__name__)
    return _out


def multi_frame_values():
    """values whose protocol-4/5 pickle exceeds the 64 KiB frame target (several FRAME opcodes)
    while consisting of only a handful of opcodes"""
    return st.one_of(
        st.integers(66000, 70000).map(lambda n: ["head", b"x" * n, "tail"]),
        st.integers(66000, 68000).map(lambda n: {"blob": b"\x01" * n, "after": [1, 2, 3]}),
        st.integers(66000, 67000).map(lambda n: (b"a" * n, "mid", b"b" * n, [n])),
    )

"""Effect monitor and scratch-directory management for the child-process checks.

The shard worker process *is* the sandboxed child: it owns a fresh scratch cwd
under /verif/.scratch, installs one CPython audit hook (recording is switched on
only around the code under observation), and resets process-global state between
cases.  The monitor is independent of fickling's own view of what it did.
"""
import contextlib
import os
import shutil
import sys

from . import env

WATCHED_PREFIXES = (
    "exec", "compile", "pickle.find_class", "marshal.loads", "os.system", "os.exec",
    "os.posix_spawn", "os.fork", "os.forkpty", "os.spawn", "subprocess.Popen", "socket.",
    "ctypes.", "os.remove", "os.rename", "os.mkdir", "os.rmdir", "os.unlink", "shutil.",
    "os.symlink", "os.link", "os.truncate", "os.chmod", "os.chown", "os.putenv", "os.kill",
    "webbrowser.open", "urllib.Request", "ftplib.", "smtplib.", "http.client.", "builtins.input",
    "sys.settrace", "sys.setprofile", "code.__new__", "function.__new__", "import", "open",
)  # fmt: skip


class Monitor:
    _installed = None

    def __init__(self):
        self.recording = False
        self.events = []
        # when set, process creation inside a watched section is recorded AND refused (an
        # interactive child such as a pager would otherwise wait for input for ever)
        self.deny_spawn = False

    @classmethod
    def get(cls):
        if cls._installed is None:
            m = cls()
            sys.addaudithook(m._hook)
            cls._installed = m
        return cls._installed

    def _hook(self, event, args):
        if not self.recording:
            return
        if event.startswith(WATCHED_PREFIXES):
            try:
                if event == "import":
                    rec = (event, args[0])
                elif event == "open":
                    # builtins.open gives (path, mode, flags); os.open gives (path, None, flags)
                    mode = args[1]
                    if mode is None and len(args) > 2 and isinstance(args[2], int):
                        f = args[2]
                        acc = f & os.O_ACCMODE
                        mode = ("r" if acc == os.O_RDONLY else "w" if acc == os.O_WRONLY else "r+")
                        if f & (os.O_CREAT | os.O_TRUNC | os.O_APPEND) and "w" not in mode and "+" not in mode:
                            mode += "+"
                    rec = (event, args[0] if isinstance(args[0], (str, bytes, int)) else repr(args[0]), mode)
                elif event in ("exec", "compile"):
                    rec = (event,)
                elif event == "pickle.find_class":
                    rec = (event, args[0], args[1])
                else:
                    rec = (event,) + tuple(_brief(a) for a in args[:3])
            except Exception:  # noqa: BLE001
                rec = (event,)
            self.events.append(rec)
            if self.deny_spawn and event.startswith(("os.system", "os.exec", "os.posix_spawn", "os.fork", "os.forkpty",
                                                     "os.spawn", "subprocess.Popen")):
                raise PermissionError("process creation is refused inside this monitored section")

    @contextlib.contextmanager
    def watch(self):
        self.events = []
        self.recording = True
        try:
            yield self.events
        finally:
            self.recording = False


def _brief(a):
    if isinstance(a, (str, bytes, int, float, type(None))):
        return a if not isinstance(a, (str, bytes)) or len(a) < 200 else a[:200]
    return type(a).__name__


class Scratch:
    """fresh working directory under /verif/.scratch; removed on exit"""

    def __init__(self, tag):
        self.path = os.path.join(env.SCRATCH, f"{tag}-{os.getpid()}")
        self._old = None

    def __enter__(self):
        shutil.rmtree(self.path, ignore_errors=True)
        os.makedirs(self.path)
        self._old = os.getcwd()
        os.chdir(self.path)
        return self

    def __exit__(self, *exc):
        os.chdir(self._old)
        shutil.rmtree(self.path, ignore_errors=True)

    def listing(self):
        out = {}
        for root, _dirs, files in os.walk(self.path):
            for f in files:
                p = os.path.join(root, f)
                try:
                    st = os.stat(p)
                    out[os.path.relpath(p, self.path)] = (st.st_size, st.st_mtime_ns)
                except OSError:
                    pass
        return out

    def wipe(self):
        for name in os.listdir(self.path):
            p = os.path.join(self.path, name)
            if os.path.isdir(p) and not os.path.islink(p):
                shutil.rmtree(p, ignore_errors=True)
            else:
                with contextlib.suppress(OSError):
                    os.remove(p)


def reset_pickle_bindings():
    import _pickle
    import pickle

    pickle.load, pickle.loads, _pickle.load, _pickle.loads = env.PICKLE_ORIG


RESOLVED = []  # (module, attribute) resolutions observed on sentinel modules


class SentinelModule(type(sys)):
    """an already-loaded module whose every attribute lookup is recorded: makes *resolution* of a
    name on a loaded module observable (audit hooks do not report getattr)"""

    def __getattr__(self, name):
        if name.startswith("__") and name.endswith("__"):
            raise AttributeError(name)
        RESOLVED.append((self.__name__, name))
        raise AttributeError(name)


def install_sentinels(names):
    for n in names:
        if n not in sys.modules or not isinstance(sys.modules[n], SentinelModule):
            sys.modules[n] = SentinelModule(n)
